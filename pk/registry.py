"""Per-property registration data (single source for MANIFEST.json)."""

# id -> dict(claimed, category, text, note, technique, design_ref, na_reason)
PROPS = {}


def reg(pid, claimed, category, text, note, technique, na_reason=None):
    PROPS[pid] = dict(claimed=claimed, category=category, text=text, note=note, technique=technique,
                      design_ref='DESIGN.md §4 ' + pid, na_reason=na_reason)


reg('C06', True, 'other',
    'All-paths structural decision on the MIR CFG of the stepping function and the basis handle: exactly one '
    'parameter write per proposal (who-may-write over the resolved call graph), Basis::reset_value on every path '
    'from the decision\'s reject edge on the same container and index value, undo value = value captured before '
    'the write (dominance), returned object = the moved-in state, score_current only takes accepted scores. '
    'Quantifies over every accept/reject history because it quantifies over every CFG path.',
    'Trusted: rustc MIR construction, driver export, cfg/dataflow helpers. Assumes std Vec/slice/Option accessors '
    'return the element they are documented to return.',
    'MIR CFG dominators + must-pass-through + provenance dataflow + who-may-call over resolved call graph')

NA_DEFAULT = 'check not built yet in this round (static rules planned in DESIGN.md §4); not claimed until it exists'

reg('C16', True, 'proof',
    'Exhaustive decision over a finite space read from the source: the 7-arm group table is lifted from the HIR '
    'of the single match over WallpaperGroups and every one of the 19 operation strings is read with an '
    'independent exact-rational triplet reader; identity, closure of all ordered pairs, inverses, distinctness '
    'modulo Z^2, order, set-equality with the ITA general positions (plane groups 1,2,3,4,6,7,8), mirror / glide / '
    'two-fold content, lattice-system = crystal family, and W^T G W = G for the family metric are checked for all.',
    'Trusted: the ITA transcription and triplet reader in pk/tables.py; assumes the run-time parser reads these 19 '
    'literals as the notation defines them (its robustness is C17; its denotation is not decided statically).',
    'HIR literal-table lifting + exhaustive group-axiom check against an independent ITA table')

reg('C10', True, 'other',
    'Dataflow/lineage over the MIR of the binary: the serialised, logged and drawn object is one local whose value '
    'is ParallelIterator::max over the three map stages of 0..replications (None -> Err, no unwrap); Ord::cmp = '
    'partial_cmp(self, other).unwrap() and partial_cmp = f64::partial_cmp(score(self), score(other)) in that order for '
    'both state types (sibling check); JSON bytes = that serialisation, written to outfile.json, SVG = as_svg of the '
    'same object to outfile.svg; label table (name = CLI variant, family, full operation count) for all 7 groups; '
    'labels and every operation string carried through Wallpaper::new / WyckoffSite::new / from_group / all 5 arms of '
    'main; replica closures do not capture the replica count (prefix-monotonicity of the max).',
    'Trusted: rayon map/max semantics, serde_json::to_string, svg::save, std fs. Does not decide file-system effects.',
    'MIR value-lineage dataflow + HIR literal table + sibling-implementation cross-check')

reg('C13', True, 'other',
    'Symbolic execution of the loop-free LJ2::energy over all CFG paths; each guarded result is normalised to an exact '
    'rational function over Q and compared with the reference law: uncut branch = 4 eps ((s/r)^12-(s/r)^6); guard '
    'r^2 < cutoff^2 => that minus its value at the cutoff, otherwise exactly 0; substituting r^2 := cutoff^2 gives the '
    'zero polynomial (continuity); positions occur only inside r^2 (rigid-motion invariance); swap self<->other compared '
    '(fails today: known finding, only self\'s parameters are used); molecule energy = sum over the full cartesian '
    'product of components (adaptor-chain whitelist); all 8 Mul impls copy sigma/epsilon/cutoff and move the position by T.',
    'Real-number identities only (no rounding). Trusted: symbolic interpreter + model table for f64::powi and nalgebra '
    'Point/Vector/Transform ops; itertools cartesian_product and Iterator::sum cardinality.',
    'symbolic execution of MIR + polynomial normal-form identity + adaptor-chain recognition')

reg('C14', True, 'other',
    'Symbolic execution + exact normal forms of the loop-free Cell2 leaves: to_cartesian is linear with A=(a,0), '
    'B=(b cos t, b sin t) (the property\'s own lattice, a=length, b=length*ratio); to_cartesian_point/center go through '
    'the same map; to_cartesian_isometry/translate replace exactly the two translation entries by to_cartesian(p [+ (n,m) '
    'in that order]) and leave the other seven matrix entries untouched; area = A x B of those same vectors. '
    'periodic_images: cartesian product of two -shells..=shells ranges (bounds traced to the parameter), filter closure '
    'evaluated on all 8 rows of (zero, x==0, y==0) against zero OR NOT(x=0 AND y=0), every index pair mapped once through '
    'to_cartesian_translate with (x,y) in order; adaptor whitelist excludes anything that drops/duplicates.',
    'Real-number identities (no rounding). Trusted: symbolic interpreter and nalgebra/itertools models.',
    'symbolic execution of MIR + polynomial normal form + adaptor-chain recognition + finite truth table')

reg('C07', True, 'other',
    'Symbolic execution of the loop-free decision function over all paths; path conditions evaluated in an IEEE-754 '
    'float-class abstract domain with the relational fact new?old for the scenarios {kT=+0, kT>0} x {better, equal, worse, '
    'invalid}: must-accept / must-accept / must-reject (kT=0) or may (kT>0) / must-reject. Accepting paths return the '
    'proposal\'s own score; the acceptance test is U < p with p == min(exp((new-old)/kT),1) as an exact normal form; '
    'exactly one Rng::gen draw on the generator parameter; in the stepping function the decision is called once per '
    'iteration with the score evaluated after the proposal, old = score_current, kT = the schedule variable, and every '
    'generator argument in the loop is the local seeded by seed_from_u64(self.seed).',
    'Assumes finite scores; rand Standard f64 is uniform on [0,1) and Pcg64Mcg\'s statistical quality are trusted.',
    'symbolic execution + float-class abstract interpretation (decision table) + normal-form identity + dataflow')

reg('C05', True, 'other',
    'Abstract interpretation over IEEE float classes for EVERY configuration family with kt_start = +0: the builder is '
    'executed symbolically (all paths); on every path feasible at kt_start=+0 the stored cooling factor must be finite and '
    'non-negative (catches finish/0 = inf -> 0*inf = NaN); the schedule variable\'s least fixpoint in the stepping function '
    '(all definitions, any number of loops) must stay {+0}; at kT=+0 the decision function must-rejects worse and invalid '
    'proposals and must-accepts better/equal ones on every path.',
    'Assumes kt_finish >= 0 finite, kt_ratio in [0,1], finite scores. Returned-state/score_current bookkeeping is C06.R4/R5.',
    'symbolic execution of the builder + float-class abstract interpretation + flow-insensitive fixpoint over MIR locals')

reg('C18', True, 'other',
    'Structural: the schedule variable is initialised from kt_start and has exactly one update kT*self.kt_ratio, in the outer '
    'loop but not the inner loop and on every path from the inner loop\'s exit to the outer loop head. Formula: the builder\'s '
    'stored factor per family equals 1 - ratio, or powf(kt_finish/kt_start, 1/L) with L the outer loop\'s own trip count '
    'lifted from the stepping function and rewritten through the builder\'s field assignments (factor^L = finish/kt_start).',
    'Real-number identity (no rounding); the neither-ratio-nor-finish family is unspecified by the property and only noted. '
    'Zero-stays-zero is decided under C05.',
    'CFG loop structure + symbolic execution of the builder + normal-form identity against the loop trip count')

reg('C19', True, 'other',
    'Abstract interpretation: the step handed to set_sampled is max_step_size*m; the least fixpoint of m over all its '
    'definitions in the stepping function (= every rejection history, any number of outer loops; IEEE float classes incl. '
    'NaN/inf) must be within [+0,1]. Basis::sample is executed symbolically: value + step*(max-min)*U, U=gen_range(-1/2,1/2) on '
    'the passed generator, and set_sampled sets exactly that sample.',
    'Flow-insensitive (a cap expressed only by a branch guard instead of min/clamp would be reported undecidable). One '
    'parameter per proposal is C06.R1; clamp only shortens a move (C08).',
    'float-class abstract interpretation (fixpoint over MIR locals) + symbolic execution of the sampling leaf')

reg('C20', True, 'other',
    'May-panic enumeration over workspace code reachable from the stepping function, the state orderings and the binary: '
    'every MIR Assert and panic-capable call must be discharged by an analysis (divisor interval excludes 0 for every builder '
    'family; constant index < constant length; expect() of get(index) with index ~ Uniform(0,len) of the same never-resized Vec; '
    'Uniform::new(0,len) with len>=1 because both generate_basis impls append an unconditional push; bounded counters; constant '
    'arguments; pointers from UnsafeCell/Box) or match the committed precondition table (by structural signature and count). '
    'Work: outer trip = floor(steps/I), inner trip = I (same field), one State::score per inner iteration. Convergence: the '
    'block control-dependent on convergence=Some writes only its counter and the return place, counter += 1 iff '
    'score_current - score_start < threshold else 0, exit when counter > 5. Binary: main returns Result and every fallible '
    'call is propagated.',
    'Panics inside third-party crates, allocation failure, I/O and panics conditional on an invalid/non-finite input state '
    '(tabled preconditions) are not decided.',
    'call-graph reachability + per-site discharge (interval abstract interpretation, dominance, dataflow) + precondition table')

reg('C09', True, 'other',
    'Ownership/effect facts, none of which needs a schedule to be explored: type graph from both state types and the three '
    'shape types (74 type nodes incl. nalgebra storage) contains no Rc/Arc/raw pointer/reference/Cell/RefCell/Mutex/atomic, the '
    'only interior-mutable leaf is SharedValue.value: UnsafeCell<f64> held inline (two state values cannot alias a cell); no '
    'static mut / interior-mutable static / thread_local; manual Clone impls (Cell2, OccupiedSite) build every field from the '
    'same-named field of self and no Clone impl can reach a cell write; each of the 3 rayon closures uses the captured shared '
    'state only as receiver of Clone::clone and optimises a state it owns (fresh clone / moved-in result); no nondeterminism '
    'source (thread_rng, from_entropy, SystemTime, env, HashMap, thread ids...) is called from ~100 seeded-path roots; '
    'from_entropy only under seed==None in the builder; every build() in a closure follows .seed(replica index); seed() stores '
    'Some(arg). Zero-expected rules are run against a positive-control fixture crate on every run.',
    'Trusted: rayon calls each closure with the arguments it was given and its max is order-consistent; std Vec/String/Box are '
    'unique owners. Does not explore schedules (not needed for an ownership argument) and does not decide rayon itself.',
    'type-graph ownership analysis + effect/call-graph reachability + symbolic clone fidelity + closure capture dataflow')

reg('C08', True, 'other',
    'CLAUSES. Who-may-write (only StandardBasis::{set_value,reset_value} reach the cell; cell field and UnsafeCell accessors '
    'confined to SharedValue); the value stored by set_value on every path equals clamp(x,min,max) on all 8 orderings of x '
    'against the handle\'s own immutable bounds; declared ranges and free parameters per crystal family lifted by symbolic '
    'execution with a recording Vec::push model and compared with the property\'s ranges (length [0.01,current], ratio '
    '[0.1,current], angle [pi/6,pi/2] Monoclinic only; site x,y [-1/2,1/2], orientation [0,2pi/rot] with rot=1 at both call '
    'sites); initial values within their ranges by interval evaluation of from_family/from_wyckoff.',
    'NOT decided: that the returned score is finite/defined and that every group x shape starts from a valid (overlap-free) '
    'state (geometric); initial length >= 0.01 is assumed (positive enclosing radius).',
    'who-may-write call-graph rule + symbolic execution (piecewise clamp, recorded pushes) + interval evaluation')

reg('C15', True, 'other',
    'CLAUSES. positions() = symmetries.iter().map(op*site).map(wrap) and nothing else (adaptor whitelist): exactly N placements, '
    'placement k from operation k; multiplicity = len of the same vector; the product has the operation on the LEFT and the '
    'four Transform2 x Transform2 impls are the matrix product self*rhs; the site transform is [[cos a,-sin a,x],[sin a,cos a,y],'
    '[0,0,1]]; the wrap changes only the two translation entries, each to ((u-o) rem P + P) rem P + o (or rem_euclid / floor '
    'forms), called once with P=1, o=-1/2.',
    'NOT decided: the IEEE edge cases of the double remainder the property names (u = +-1/2 exactly, tiny negative values '
    'rounding up to P) — a statement about rounding for all doubles.',
    'adaptor-chain recognition + symbolic execution with a nalgebra matrix model + normal-form identity')

reg('C04', True, 'other',
    'CLAUSES (Cartesian invariance is derived, not observed). Composition order and wrap (C15 obligations re-run); set_position '
    'writes only entries (0,2),(1,2); for each of the 5 groups containing a linear part other than +-I the paired crystal family '
    'has no angle degree of freedom, starts at pi/2 and all linear parts are diagonal (commute with every rectangular cell) — '
    'tables lifted from HIR (groups) and by symbolic execution (degrees of freedom, from_family); family fields are never '
    'assigned after construction and the cell is created from wallpaper.family.',
    'Relies on C16 (tables are the named groups) and C14 (one lattice map). Does not observe placements.',
    'literal-table agreement (group x family x degrees of freedom) + symbolic execution + field-write scan')

reg('C12', True, 'other',
    'CLAUSES. Symbolic execution of the two loop-free leaf predicates: Atom2::intersects is exactly |a.p-b.p|^2 < (a.r+b.r)^2 '
    '(normal-form identity); Line2::intersects has a parallel guard d_s x d_o == 0 -> false, exactly one accepting path whose '
    'condition set is {0<=ua, ua<=1, 0<=ub, ub<=1} with the exact parameters ua, ub (closed interval: coincident / vertex-'
    'sharing copies are detected only through 0 and 1), all other paths return false; both leaves invariant under argument '
    'swap (ua<->ub); LineShape/MolecularShape2::intersects = any over the full component product (through the workspace '
    'iterator helpers); all 16 Mul impls move components by T and keep radii.',
    'NOT decided: polygon-level geometry (edge crossing <=> overlap for congruent convex polygons, parallel/aligned cases) and '
    'the 1e-9 tolerance; floating-point rounding.',
    'symbolic execution + polynomial normal form (exact predicates) + adaptor-chain recognition')

reg('C17', True, 'other',
    'CLAUSE: "never crashes". May-panic enumeration over everything reachable from from_operations / WyckoffSite::new / '
    'get_wallpaper_group: the only panic-capable constructs are the three matrix writes transform[(row, col)]; col is a '
    'constant < 3; row is the enumerate() counter over a Vec whose length is narrowed to [2,2] by interval refinement along the '
    'branch edges of the two guards that dominate the loop, on a Vec that is never resized; every Result goes through `?`.',
    'NOT decided: that every grammar string parses to the affine map it denotes (execution of a character state machine over '
    'an infinite language — outside static analysis as defined for this task); no proxy rule is armed for it.',
    'call-graph may-panic enumeration + dominator-based interval refinement of a guarded length')

reg('C11', True, 'other',
    'CLAUSES. Writer/reader agreement at MIR level for all 15 local types reachable from a state: keys passed to '
    'serialize_field (values = same-position fields of self, declared count = number of fields) == keys the field visitor '
    'accepts == keys visit_map requires; enum variant names written == accepted; newtype written from .0; SharedValue\'s manual '
    'pair writes exactly serialize_f64(get_value(self)) and reads deserialize_f64 through a visitor whose visit_f64 is the '
    'identity, wrapped by SharedValue::new which stores its argument. SVG: the format template of Transform2::as_svg is decoded '
    'and each placeholder traced to a constant matrix index: matrix(a b c d e f) <- (0,0),(1,0),(0,1),(1,1),(0,2),(1,2); in both '
    'state impls every #mol <use> is to_cartesian_isometry(p) or an item of periodic_images(p,1,false), p from '
    'relative_positions(), and the #cell images are periodic_images(identity,1,true).',
    'NOT decided: that serde_json prints every finite f64 in a form it parses back to the same bits (ryu/serde_json contract), '
    'non-finite values, file-system effects, svg crate rendering.',
    'sibling cross-check of generated writer/reader MIR + decoded format template + dataflow lineage of SVG placements')

reg('C01', True, 'other',
    'CLAUSES ONLY — does not decide that a scored state is overlap-free. Decides: Some(score) is dominated by the negative edge '
    'of a test that reaches Intersect::intersects over the state\'s own placements; each positive intersects() result leads to '
    '`return true` on every path; the in-cell nest is enumerate() x skip(index+1) over the same cartesian placements (every '
    'unordered pair once); the periodic nest is placements x relative_positions x periodic_images(p, shells, zero=false) on '
    'self.cell; every constant that can reach `shells` is >= 1; the prefilter tests a pair when d^2 <= T where d^2 is the squared '
    'distance of the two placements\' positions and T - 4R^2 (R = enclosing radius) has only non-negative coefficients; '
    'cartesian_positions = relative_positions().map(to_cartesian_isometry), relative_positions = sites.flat_map(positions).',
    'NOT decided: that the searched shell count suffices for every reachable cell (geometric; the property text reports '
    'counter-examples found only by adversarial search) and polygon-level geometry (C12).',
    'CFG dominance + loop/adaptor-chain recognition + constant propagation + polynomial inequality on the prefilter threshold')

reg('C03', True, 'other',
    'CLAUSES. The returned payload is -sum/total_shapes; sum starts at 0 and is only updated as sum + w*energy(p,q) (2 sites); '
    'the in-cell nest visits each unordered pair once and the periodic nest the full ordered product over all images without the '
    'identity (each unordered image pair twice), so w(periodic) must be w(in-cell)/2 (lattice energy per cell); operands are '
    'Cartesian placements; total_shapes = sum of site multiplicities.',
    'NOT decided: convergence of the truncated image sum / that 3 shells cover the cutoff. Pair-energy asymmetry for unlike '
    'particles is the known finding under C13.',
    'loop-nest/adaptor-chain recognition + lifted accumulation weights + normal-form identity of the returned expression')

reg('C02', True, 'other',
    'CLAUSES (exact real-formula identities by symbolic execution / lifting + polynomial normal form). The Some payload of the hard '
    'score == area(shape)*total_shapes/area(cell); total_shapes == sum of site multiplicities; area(cell) == |A x B| of the lattice '
    'vectors of to_cartesian; polygon: per-edge term == 1/2*sin(2pi/items.len())*|start|*|end| summed over every item, and '
    'from_radial places vertex k at (r_k sin kd, r_k cos kd), d=2pi/n with edges (k, k+1 cyclic); discs: sum of pi r^2 minus, for each '
    'unordered pair once (tuple_combinations), the two-segment lens formula guarded by d < r1+r2.',
    'NOT decided: the disc-union area is only second-order inclusion-exclusion (wrong when three discs share a point — a condition on '
    'run-time trimer parameters); score <= 1 (needs the undecided shell-sufficiency clause of C01); floating-point accuracy.',
    'symbolic execution/lifting of loop-free leaves + polynomial normal-form identities + adaptor-chain recognition')


# ---- refinements after the seeded-change rounds (later reg() overrides the earlier entry) -------------------------

PROPS['C01']['text'] += (' Added after seeding: R6 the radius used by the prefilter really encloses the shape (max over components of '
                         '|centre|+radius / |vertex|); R7 the lifted shell-count decision is evaluated statically at confirmed hard-instance '
                         'cells (table in pk/rules/C01.py) and must give at least the shells geometry requires there; LATTICE: the C14 '
                         'obligations (images are the lattice translates) are imported.')
PROPS['C03']['text'] += ' LATTICE: the C14 obligations (periodic images are the lattice translates of the placements) are imported.'
PROPS['C04']['text'] += ' Manual Clone impls of cell/site/wallpaper are faithful field-to-field (the CLI optimises clones).'
PROPS['C05']['text'] += ' The C06 obligations (exact undo, bookkeeping, returned state) are imported as R4.'
PROPS['C07']['text'] += (' R5: with kt_start = +0 the temperature argument reaching the decision is +0 on every step (same abstract model as '
                         'C05.R1/R2), otherwise "never at kT = 0" would be void.')
PROPS['C09']['text'] += (' R7: both state orderings are the exact total order on scores (C10.R2 obligations), which rayon\'s tree reduction '
                         'needs to return the same maximum under every schedule.')
PROPS['C16']['text'] += (' R5: the run-time parser (where the tables are observed) satisfies the per-character transition lemmas of C17.R3 '
                         'and stores each row\'s constant after the character loop.')
PROPS['C17']['text'] = ('CLAUSES. (R1/R2) "never crashes": may-panic enumeration over everything reachable from from_operations / WyckoffSite::new / '
                        'get_wallpaper_group; the only panic-capable constructs are the three matrix writes transform[(row, col)], col a constant < 3, '
                        'row the enumerate() counter over a Vec whose length is narrowed to [2,2] by interval refinement along the dominating guard '
                        'edges; every Result goes through `?`. (R3) necessary conditions of "parses to the map it denotes": one step of the '
                        'character loop is executed symbolically with a fully symbolic parser state and must satisfy the notation\'s own lemmas — a '
                        'blank is the identity on the state, \'-\' makes the pending sign negative, x / y store the pending sign in their column and '
                        'consume it, \'/\' records a pending division, a digit sets sign*digit or divides the constant, the constant is stored in '
                        'column 2 after the characters.')
PROPS['C17']['note'] = ('NOT decided: that EVERY grammar string parses to its denotation (an induction over strings is not attempted; the lemmas are '
                        'necessary, not sufficient) and behaviour on strings outside the grammar beyond not panicking.')
PROPS['C17']['technique'] = 'call-graph may-panic enumeration + dominator-based interval refinement + symbolic execution of one loop step (transition lemmas)'
PROPS['C18']['text'] += ' R3: zero stays zero (the C05.R1/R2 model) is now also an obligation of this check.'

# ---- refinements after the normalisation layer and the third seeded round ------------------------------------------

PROPS['C06']['text'] += (' R5 also requires that, inside the proposal loop, the score handed to the decision as the current one takes the '
                         'accepted payload (a score frozen at the loop start compares later proposals with a stale value).')
PROPS['C05']['text'] += ' (R4 thereby includes the compared-score obligation of C06.R5.)'
PROPS['C07']['text'] += (' R6: "worse by d" is measured against the running score: the C06.R5 bookkeeping obligations are imported. The decision '
                         'is located by meaning (the call that receives the proposal\'s State::score(), as an argument or as a field of a '
                         'struct-literal argument, and returns Option<f64> or a two-variant accept/reject enum).')
PROPS['C09']['text'] += (' R5 also lists order-dependent parallel reductions reachable from the seeded paths (ParallelIterator sum/product of '
                         'floats, reduce, fold, find_any): their result depends on how rayon splits the work.')
PROPS['C18']['text'] += (' R1: exactly one update kT <- kT * stored factor per way round the outer loop, outside the inner loop, and the decision '
                         'reads kT before the update of its own outer iteration (a read after it shifts the schedule by one); a schedule written '
                         'as `zip` with `iter::successors` is read as the same state variable (pk/loopform.py).')
PROPS['C20']['text'] += (' Overflow checks on collection-size arithmetic are discharged by exact integer intervals (pk/sizes.py: allocation bound '
                         'len <= isize::MAX / size_of, owned-length sums, accumulators over range loops); `clamp` and integer `pow` are '
                         'panic-capable calls; a bounds check / explicit assert whose condition is decided by the function\'s own constants is '
                         'discharged by evaluating the enclosing function on every path (never when an uninterpreted call received a &mut).')
for _p in PROPS.values():
    if 'technique' in _p and 'normal form' not in _p['technique']:
        _p['technique'] += '; decided on a normal form of the MIR (helper splicing, jump threading, loop/nest form, SROA; DESIGN section 11)'
PROPS['C04']['text'] += ' R5: the table obligations of C16 (R1-R3: lifting, group axioms, general positions / signatures) are imported.'
PROPS['C19']['text'] += ' R3: the exact-undo obligations of C06.R3 are imported (an undo that restores a stale value makes the next move larger than one step).'
PROPS['C03']['text'] += ' PAIR: the pair law and the sum over particle pairs (C13 R1-R3, R5) are imported.'
PROPS['C08']['text'] += ' R5: the group table obligations C16 R1 (lifting) and R4 (family = lattice system of the group) are imported.'
PROPS['C09']['text'] += ' R1 also: MCOptimiser / BuildOptimiser are plain data (no interior mutability, nothing shared): one optimiser may serve several replicas through &self.'
PROPS['C10']['text'] += ' R1 also: what the reduction compares is the state, or a tuple / derived-Ord record whose first component is the state.'
PROPS['C03']['text'] += (' R6: the number of image shells the score searches, evaluated at two crystals of the default trimer whose '
                         'geometry requires 3 resp. 2 shells (necessary instances; sufficiency in general is not decided).')
PROPS['C07']['text'] += ' R6 also imports C06.R2/R3: a rejected proposal is undone, exactly (otherwise it is in effect accepted).'
PROPS['C10']['text'] += (' R7: the written structure is the scored one value for value: the serialiser-fidelity obligations of C11.R1 '
                         'are imported.')
PROPS['C16']['text'] += (' R6: every table string becomes one operation of the site, in order (the WyckoffSite::new obligations of '
                         'C10.R5, imported).')
# ---- seeded round 7 (small surgical mutations around the mechanisms) --------------------------------------------------------------
_WIRE = (' WIRE (every property, over the files it is anchored in): a call that passes named locals to parameters of the same '
         'names (or x / y to a coordinate constructor) passes them in the parameters\' positions.')
for _p in PROPS.values():
    _p['text'] += _WIRE
PROPS['C05']['text'] += ' R6: setter fidelity of the builder for kt_start / kt_finish / kt_ratio (each setter writes its own field with its argument).'
PROPS['C09']['text'] += ' R8: setter fidelity of the builder for seed.'
PROPS['C18']['text'] += ' R4: setter fidelity for kt_start / kt_finish / kt_ratio. R5: the temperature the acceptance probability is evaluated at (C07.R3, imported).'
PROPS['C19']['text'] += ' R4: setter fidelity for max_step_size.'
PROPS['C20']['text'] += ' R5: setter fidelity for steps / inner_steps / convergence. R6: both output files go to their own paths (C10.R3, imported).'
PROPS['C10']['text'] += ' R8: the command line passes its values to the shape constructors under their own names.'
PROPS['C11']['text'] += (' R6: what is drawn and written is the final state, to the .svg / .json paths (C10.R3, imported). R7: glyph attributes '
                         'and path points are the x and y of one point; Transform2 -> Matrix3 returns the stored matrix; the cell outline is '
                         'the image of the unit square under the cell\'s own lattice map, corner by corner.')
PROPS['C12']['text'] += (' R6: a radial polygon is the closed polygon through its radial vertices (C02.R4, imported). R7: the hard-disc and the '
                         'Lennard-Jones trimer constructors build one geometry (same centres, sigma = 2 * radius).')
PROPS['C14']['text'] += ' R5: a cloned cell is the same lattice (C09.R3 for Cell2, imported). R6: the cell outline (C11.R7 corners, imported).'
PROPS['C17']['text'] += (' R4: Transform2 -> Matrix3 returns the parsed matrix itself. R5: the reader of the group tables keeps every string and '
                         'passes a parse error on (C10.R5 constructor obligations, imported).')
PROPS['C01']['text'] += ' PAIRTEST: the pairwise predicates the state test is built from (C12 R1, R3) are imported.'
PROPS['C03']['text'] += ' PAIR also imports C13.R6 (moving a particle keeps its parameters).'
PROPS['C04']['text'] += ' LATTICE: the lattice vectors of the Cartesian map (C14.R1) are imported.'
PROPS['C06']['text'] += ' R6: the score carried forward on acceptance is the proposal\'s (C07.R2, imported). R7: what the command line writes is a result of the stages (C10.R1 written-state obligations, imported).'
PROPS['C08']['text'] += ' R6: the enclosing radius the starting cell is sized by encloses the shape (C01.R6, imported). R7: clones keep parameters and family (C09.R3, imported).'
PROPS['C15']['text'] += ' R4: the operations applied are the group\'s (C16 R1-R3, imported).'
PROPS['C16']['text'] += ' R7: the cell built for a family is one its operations leave invariant (C04.R3, imported).'
# ---- seeded round 8 ------------------------------------------------------------------------------------------------------------------
for _p in PROPS.values():
    _p['text'] += ' WIRE also reads struct literals: a field is not given the value named like another field of the same struct.'
PROPS['C13']['text'] += ' R5 also for <LJShape2 as Shape>::score, the second spelling of the molecule sum.'
PROPS['C17']['text'] += " R3 also: the digit step is taken for exactly '0'..='9'. R6: the constructors that parse the group tables contain no panic-capable site (C20.R1, imported)."
PROPS['C20']['text'] += ' R3: the improvement test is strictly less-than. R1: a constant index into get_corners() is below 4.'
PROPS['C10']['text'] += ' R9: the arms of the (shape, potential) dispatch build pairwise different structures. R10: every replica stage is seeded with the replica index (C09.R4/R6, imported).'
PROPS['C01']['text'] += ' PAIRTEST also imports C12.R4; PLACEMENTS: the copies tested are the group\'s copies of the site, wrapped into the cell (C15 R2/R3, imported).'
PROPS['C02']['text'] += ' NOOVERLAP: the structural clauses of C01 (R1, R3-R6) are imported; SHAPE: C12.R7 is imported.'
PROPS['C03']['text'] += ' PLACEMENTS: C15 R2/R3 are imported.'
PROPS['C06']['text'] += ' R8: clone fidelity (C09.R3, imported).'
PROPS['C07']['text'] += ' R7: setter fidelity for kt_start / kt_finish / kt_ratio.'
PROPS['C09']['text'] += ' R9: the files written are a function of this run alone (C10.R3, imported).'
PROPS['C11']['text'] += ' R8: the images drawn are the lattice translates within one shell (C14.R3, imported).'
PROPS['C15']['text'] += ' R5: a cloned site is the same site (C09.R3, imported).'
PROPS['C16']['text'] += ' R7 also imports C04.R4 (a cloned cell keeps family and parameters).'
PROPS['C19']['text'] += ' R5: the declared parameter ranges the step is scaled by (C08.R3, imported).'
PROPS['C18']['text'] += ' R2 also: every non-constant factor path of the builder that admits a given ratio yields 1 - ratio (the ratio has precedence over kt_finish).'

# ---- round 9 ----
PROPS['C10']['text'] += ' R11: every replica starts from a clone of the start state, so the Clone impls of the state types keep every field (C09.R3, imported).'
PROPS['C06']['text'] += (' R5 also: inside the proposal loop the compared score never falls back to a value computed before the loop. R3 also: '
                         'reset_value writes the cell on every feasible path for witness pairs (cell, captured value) down to one unit in the last place.')
PROPS['C03']['text'] += ' R2 also: the inner sequence of the in-cell pair loop is not a partly consumed iterator shared between outer items.'
PROPS['C06']['text'] += ' A set_sampled that writes the cell itself instead of calling set_value is decided by value (one write to its own cell, the undo field captured before it, the stored value is the clamped sample on eight witness points).'
PROPS['C08']['text'] += ' R2 also covers a set_sampled that clamps and writes on its own account (by value, eight witness points).'
PROPS['C17']['text'] += ' R3 also: no digit path taken with a pending division leaves the digit out of the constant.'
