"""Per-property registration data (single source for MANIFEST.json)."""

# id -> dict(claimed, category, text, note, technique, design_ref, na_reason)
PROPS = {}


def reg(pid, claimed, category, text, note, technique, na_reason=None):
    PROPS[pid] = dict(claimed=claimed, category=category, text=text, note=note, technique=technique,
                      design_ref='DESIGN.md §4 ' + pid, na_reason=na_reason)


reg('C06', True, 'other',
    'All-paths structural decision on the MIR CFG of the stepping function and the basis handle: exactly one '
    'parameter write per proposal (who-may-write over the resolved call graph), Basis::reset_value on every path '
    'from the decision\'s reject edge on the same container and index value, undo value = value captured before '
    'the write (dominance), returned object = the moved-in state, score_current only takes accepted scores. '
    'Quantifies over every accept/reject history because it quantifies over every CFG path.',
    'Trusted: rustc MIR construction, driver export, cfg/dataflow helpers. Assumes std Vec/slice/Option accessors '
    'return the element they are documented to return.',
    'MIR CFG dominators + must-pass-through + provenance dataflow + who-may-call over resolved call graph')

NA_DEFAULT = 'check not built yet in this round (static rules planned in DESIGN.md §4); not claimed until it exists'

reg('C16', True, 'proof',
    'Exhaustive decision over a finite space read from the source: the 7-arm group table is lifted from the HIR '
    'of the single match over WallpaperGroups and every one of the 19 operation strings is read with an '
    'independent exact-rational triplet reader; identity, closure of all ordered pairs, inverses, distinctness '
    'modulo Z^2, order, set-equality with the ITA general positions (plane groups 1,2,3,4,6,7,8), mirror / glide / '
    'two-fold content, lattice-system = crystal family, and W^T G W = G for the family metric are checked for all.',
    'Trusted: the ITA transcription and triplet reader in pk/tables.py; assumes the run-time parser reads these 19 '
    'literals as the notation defines them (its robustness is C17; its denotation is not decided statically).',
    'HIR literal-table lifting + exhaustive group-axiom check against an independent ITA table')

reg('C10', True, 'other',
    'Dataflow/lineage over the MIR of the binary: the serialised, logged and drawn object is one local whose value '
    'is ParallelIterator::max over the three map stages of 0..replications (None -> Err, no unwrap); Ord::cmp = '
    'partial_cmp(self, other).unwrap() and partial_cmp = f64::partial_cmp(score(self), score(other)) in that order for '
    'both state types (sibling check); JSON bytes = that serialisation, written to outfile.json, SVG = as_svg of the '
    'same object to outfile.svg; label table (name = CLI variant, family, full operation count) for all 7 groups; '
    'labels and every operation string carried through Wallpaper::new / WyckoffSite::new / from_group / all 5 arms of '
    'main; replica closures do not capture the replica count (prefix-monotonicity of the max).',
    'Trusted: rayon map/max semantics, serde_json::to_string, svg::save, std fs. Does not decide file-system effects.',
    'MIR value-lineage dataflow + HIR literal table + sibling-implementation cross-check')

reg('C13', True, 'other',
    'Symbolic execution of the loop-free LJ2::energy over all CFG paths; each guarded result is normalised to an exact '
    'rational function over Q and compared with the reference law: uncut branch = 4 eps ((s/r)^12-(s/r)^6); guard '
    'r^2 < cutoff^2 => that minus its value at the cutoff, otherwise exactly 0; substituting r^2 := cutoff^2 gives the '
    'zero polynomial (continuity); positions occur only inside r^2 (rigid-motion invariance); swap self<->other compared '
    '(fails today: known finding, only self\'s parameters are used); molecule energy = sum over the full cartesian '
    'product of components (adaptor-chain whitelist); all 8 Mul impls copy sigma/epsilon/cutoff and move the position by T.',
    'Real-number identities only (no rounding). Trusted: symbolic interpreter + model table for f64::powi and nalgebra '
    'Point/Vector/Transform ops; itertools cartesian_product and Iterator::sum cardinality.',
    'symbolic execution of MIR + polynomial normal-form identity + adaptor-chain recognition')

reg('C14', True, 'other',
    'Symbolic execution + exact normal forms of the loop-free Cell2 leaves: to_cartesian is linear with A=(a,0), '
    'B=(b cos t, b sin t) (the property\'s own lattice, a=length, b=length*ratio); to_cartesian_point/center go through '
    'the same map; to_cartesian_isometry/translate replace exactly the two translation entries by to_cartesian(p [+ (n,m) '
    'in that order]) and leave the other seven matrix entries untouched; area = A x B of those same vectors. '
    'periodic_images: cartesian product of two -shells..=shells ranges (bounds traced to the parameter), filter closure '
    'evaluated on all 8 rows of (zero, x==0, y==0) against zero OR NOT(x=0 AND y=0), every index pair mapped once through '
    'to_cartesian_translate with (x,y) in order; adaptor whitelist excludes anything that drops/duplicates.',
    'Real-number identities (no rounding). Trusted: symbolic interpreter and nalgebra/itertools models.',
    'symbolic execution of MIR + polynomial normal form + adaptor-chain recognition + finite truth table')
