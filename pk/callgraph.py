"""Resolved call graph over workspace bodies.

Edges: direct calls (Instance-resolved where rustc could resolve them), trait-method calls on
type parameters expanded to every workspace impl of that method, closures and fn items that a
body creates or passes on (they are invoked by the adaptor that receives them).
External callees are kept as leaf names so that rules can ask "which std/rand/... functions
does workspace code reachable from X call directly".
"""
from .facts import Facts


def _fn_consts_in_operand(op):
    out = []
    if isinstance(op, dict) and op.get('k') == 'const':
        if 'fn' in op:
            out.append(op)
        elif 'closure' in op:
            out.append({'fn': op['closure'], 'fn_local': True, 'is_closure': True})
    return out


class CallGraph:
    def __init__(self, facts: Facts):
        self.f = facts
        self.edges = {}       # body path -> set(body path)
        self.ext = {}         # body path -> set(external callee path)
        self.sites = {}       # body path -> list of site dict
        self.unresolved = {}  # body path -> list of trait method names that were expanded
        self._impl_index = {}
        for b in facts.bodies.values():
            if b.impl_trait and not b.is_closure:
                self._impl_index.setdefault((facts.norm(b.impl_trait), b.fn_name), []).append(b)
        for key, b in facts.bodies.items():
            self._scan(key, b)

    def impls_of(self, trait_path, method):
        return self._impl_index.get((self.f.norm(trait_path), method), [])

    def targets_of_fnconst(self, fc, caller):
        """Workspace bodies a function constant may denote."""
        f = self.f
        res = []
        b = f.body_of_fnconst(fc)
        if b is not None:
            return [b], False
        # trait method without resolution -> all workspace impls
        if fc.get('trait') and not fc.get('resolved'):
            method = fc['fn'].rsplit('::', 1)[-1]
            impls = self.impls_of(fc['trait'], method)
            return list(impls), True
        return res, False

    def _scan(self, key, b):
        edges = self.edges.setdefault(key, set())
        ext = self.ext.setdefault(key, set())
        sites = self.sites.setdefault(key, [])
        f = self.f

        def add_fnconst(fc, bb, how):
            tg, expanded = self.targets_of_fnconst(fc, b)
            name = f.norm(fc.get('resolved') or fc['fn'])
            if tg:
                for t in tg:
                    edges.add(self._key_of(t))
            else:
                ext.add(name)
            if tg and not expanded:
                name = tg[0].path
            sites.append({'bb': bb, 'how': how, 'declared': tg[0].path if (tg and not expanded) else f.norm(fc['fn']),
                          'resolved': tg[0].path if (tg and not expanded) else f.norm(fc.get('resolved')),
                          'trait': f.norm(fc.get('trait')), 'self_ty': fc.get('self_ty'),
                          'targets': [t.path for t in tg], 'expanded': expanded,
                          'gargs': fc.get('gargs', [])})
            for g in fc.get('garg_fns', []) or []:
                gb = f.body(g)
                if gb is not None:
                    edges.add(self._key_of(gb))
                else:
                    ext.add(f.norm(g))

        for i, bb in enumerate(b.blocks):
            for s in bb['stmts']:
                if s['s'] != 'assign':
                    continue
                rv = s['rv']
                ops = []
                if rv['r'] == 'aggr':
                    ops = rv['ops']
                    if rv.get('agg') == 'closure':
                        cb = f.body(rv['closure'])
                        if cb is not None:
                            edges.add(self._key_of(cb))
                elif 'a' in rv:
                    ops = [rv['a']] + ([rv['b']] if 'b' in rv else [])
                for op in ops:
                    for fc in _fn_consts_in_operand(op):
                        add_fnconst(fc, i, 'value')
            t = bb['term']
            if t['t'] in ('call', 'tailcall'):
                fn = t['func']
                if fn.get('k') == 'const' and 'fn' in fn:
                    add_fnconst(fn, i, 'call')
                else:
                    sites.append({'bb': i, 'how': 'indirect', 'declared': None, 'resolved': None, 'trait': None,
                                  'self_ty': None, 'targets': [], 'expanded': False, 'gargs': []})
                for a in t['args']:
                    for fc in _fn_consts_in_operand(a):
                        add_fnconst(fc, i, 'arg')
        # locals of closure type created elsewhere (e.g. moved in) are covered by 'aggr closure'

    def sites_for(self, body):
        """Call sites of a body as it is handed in — in particular a derived form (loop / nest form with spliced closures and
        helpers) whose block numbers differ from the body registered under the same path."""
        reg = self.f.bodies.get(getattr(body, 'key_in_facts', body.path))
        if reg is body:
            return self.sites.get(self._key_of(body), [])
        key = ('derived', id(body))
        if key not in self.sites:
            self._scan(key, body)
            self.edges.pop(key, None)
            self.ext.pop(key, None)
        return self.sites[key]

    def _key_of(self, body):
        return getattr(body, 'key_in_facts', body.path)

    # -- queries ----------------------------------------------------------------------
    def reachable(self, roots):
        seen = set()
        stack = [r if isinstance(r, str) else self._key_of(r) for r in roots]
        while stack:
            x = stack.pop()
            if x in seen:
                continue
            seen.add(x)
            for y in self.edges.get(x, ()):
                if y not in seen:
                    stack.append(y)
        return seen

    def ext_reachable(self, roots):
        out = {}
        for k in self.reachable(roots):
            for e in self.ext.get(k, ()):
                out.setdefault(e, []).append(k)
        return out

    def callers_of(self, pred):
        """[(caller_key, site)] for every site whose declared/resolved name satisfies pred."""
        out = []
        for k, ss in self.sites.items():
            for s in ss:
                names = [s['declared'], s['resolved']] + s['targets']
                if any(n and pred(n) for n in names):
                    out.append((k, s))
        return out

    def path_to(self, roots, target_pred):
        """Shortest call path (list of keys) from a root to a body whose key satisfies target_pred."""
        from collections import deque
        roots = [r if isinstance(r, str) else self._key_of(r) for r in roots]
        prev = {r: None for r in roots}
        dq = deque(roots)
        while dq:
            x = dq.popleft()
            if target_pred(x):
                p = []
                while x is not None:
                    p.append(x)
                    x = prev[x]
                return list(reversed(p))
            for y in sorted(self.edges.get(x, ())):
                if y not in prev:
                    prev[y] = x
                    dq.append(y)
        return None
