"""Small dataflow helpers over exported MIR: definitions of locals, provenance tracing
through temporaries / references, use sites."""


def is_place(op):
    return isinstance(op, dict) and op.get('k') in ('copy', 'move') or (isinstance(op, dict) and 'l' in op and 'k' not in op)


def place_of(op):
    if isinstance(op, dict) and 'l' in op:
        return op
    return None


class Defs:
    """Index of whole-local definitions and of all writes (including projected writes)."""

    def __init__(self, body):
        self.body = body
        self.defs = {}    # local -> list of (bb, idx|'term', kind, payload)
        self.pwrites = {}  # local -> list of (bb, idx, place, rv) writes to a part of the local itself
        self.dwrites = {}  # local -> writes *through* a reference/pointer held in the local
        for bi, bb in enumerate(body.blocks):
            for si, s in enumerate(bb['stmts']):
                if s['s'] == 'assign':
                    pl = s['place']
                    if not pl['p']:
                        self.defs.setdefault(pl['l'], []).append((bi, si, 'assign', s['rv']))
                    else:
                        self._pw(pl).setdefault(pl['l'], []).append((bi, si, pl, s['rv']))
                elif s['s'] == 'setdiscr':
                    pl = s['place']
                    self._pw(pl).setdefault(pl['l'], []).append((bi, si, pl, {'r': 'setdiscr', 'vi': s['vi']}))
            t = bb['term']
            if t['t'] == 'call':
                d = t['dest']
                if not d['p']:
                    self.defs.setdefault(d['l'], []).append((bi, 'term', 'call', t))
                else:
                    self._pw(d).setdefault(d['l'], []).append((bi, 'term', d, {'r': 'call', 'term': t}))

        if any(bb.get('threaded') for bb in body.blocks):
            self._merge_threaded_copies()

    def _merge_threaded_copies(self):
        """Jump threading (pk/thread.py) duplicates blocks: a local defined by the same statement in several copies still has
        ONE definition as far as definition tracing is concerned.  Keep one representative (a reachable one)."""
        from .cfg import term_succs
        blocks = self.body.blocks
        reach, stack = set(), [0]
        while stack:
            x = stack.pop()
            if x in reach:
                continue
            reach.add(x)
            stack.extend(term_succs(blocks[x]['term']))

        def sig(d):
            if d[2] == 'assign':
                return ('a', repr(d[3]))
            t = d[3]
            return ('c', repr(t['func']), repr(t['args']), repr(t['dest']))
        for table in (self.defs, self.pwrites, self.dwrites):
            for l, ds in list(table.items()):
                if len(ds) < 2 or not any(blocks[d[0]].get('threaded') for d in ds):
                    continue
                live = [d for d in ds if d[0] in reach] or ds
                groups = {}
                for d in live:
                    key = sig(d) if table is self.defs else (repr(d[2]), repr(d[3]) if not (isinstance(d[3], dict) and d[3].get('r') == 'call')
                                                           else repr(d[3]['term']['func']) + repr(d[3]['term']['args']))
                    groups.setdefault(key, []).append(d)
                table[l] = [g[0] for g in groups.values()]

    def _pw(self, pl):
        return self.dwrites if 'deref' in pl['p'] else self.pwrites

    def of(self, l):
        return self.defs.get(l, [])

    def single(self, l):
        d = self.defs.get(l, [])
        if len(d) == 1 and not self.pwrites.get(l):
            return d[0]
        return None


def _norm_proj(p):
    out = []
    for e in p:
        if e == 'deref' and out and out[-1] == 'ref':
            out.pop()       # *(&x) == x
        elif e == 'ref' and out and out[-1] == 'deref':
            out.pop()       # &(*r) == r  (reborrow)
        else:
            out.append(e)
    return out


def proj_names(p):
    """Readable projection path: field names, deref, downcast variants."""
    out = []
    for e in p:
        if e == 'deref':
            out.append('*')
        elif e == 'ref':
            out.append('&')
        elif isinstance(e, dict):
            if 'f' in e:
                out.append('.' + (e.get('n') or str(e['f'])))
            elif 'downcast' in e:
                out.append(' as ' + str(e['downcast']))
            elif 'idx' in e:
                out.append('[_%d]' % e['idx'])
            elif 'cidx' in e:
                out.append('[%d]' % e['cidx'])
            else:
                out.append('?')
    return ''.join(out)


def field_path(p):
    """Just the field names of a projection (ignoring deref/ref/downcast)."""
    return [e.get('n') or str(e['f']) for e in p if isinstance(e, dict) and 'f' in e]


class Tracer:
    """Follow an operand back through single-definition temporaries, copies, moves and
    references to where its value comes from."""

    def __init__(self, body, defs=None):
        self.body = body
        self.defs = defs or Defs(body)

    def origin(self, op, depth=0):
        """Returns dict with 'o' in {'const','arg','call','rvalue','local'} and the projection
        path 'p' that was applied on top of that origin."""
        if isinstance(op, dict) and op.get('k') == 'const':
            return {'o': 'const', 'c': op, 'p': []}
        pl = place_of(op)
        if pl is None:
            return {'o': 'unknown', 'p': []}
        return self._origin_place(pl['l'], list(pl['p']), depth)

    def _origin_place(self, l, p, depth):
        if depth > 60:
            return {'o': 'local', 'l': l, 'p': _norm_proj(p)}
        if 1 <= l <= self.body.arg_count:
            if not self.defs.of(l) and not self.defs.pwrites.get(l):
                return {'o': 'arg', 'l': l, 'p': _norm_proj(p), 'name': self.body.local_name(l)}
        d = self.defs.single(l)
        if d is None:
            # a read of `x.(as V).field` executes only where x holds variant V: when exactly one definition of x builds a V
            # (the others build other variants: `n = None` on one path, `n = Some(cur)` on the other) it is that definition
            q0 = _norm_proj(p)
            if q0 and isinstance(q0[0], dict) and 'downcast' in q0[0] and not self.defs.pwrites.get(l):
                ds = self.defs.of(l)
                if ds and all(x[2] == 'assign' and x[3].get('r') == 'aggr' and x[3].get('agg') == 'adt' for x in ds):
                    same = [x for x in ds if x[3].get('vi') == q0[0].get('vi')]
                    if len(same) == 1:
                        d = same[0]
        if d is None:
            return {'o': 'local', 'l': l, 'p': _norm_proj(p), 'name': self.body.local_name(l),
                    'ndefs': len(self.defs.of(l))}
        bi, si, kind, payload = d
        if kind == 'call':
            return {'o': 'call', 'bb': bi, 'term': payload, 'p': _norm_proj(p), 'l': l}
        rv = payload
        r = rv['r']
        if r == 'use':
            a = rv['a']
            if a.get('k') == 'const':
                if not p:
                    return {'o': 'const', 'c': a, 'p': []}
                return {'o': 'const', 'c': a, 'p': _norm_proj(p)}
            return self._origin_place(a['l'], list(a['p']) + p, depth + 1)
        if r == 'ref' or r == 'rawptr':
            q = rv['place']
            return self._origin_place(q['l'], list(q['p']) + ['ref'] + p, depth + 1)
        if r == 'cast' and rv.get('kind', '').startswith(('PointerCoercion', 'Transmute', 'PtrToPtr', 'Subtype')):
            a = rv['a']
            if a.get('k') != 'const':
                return self._origin_place(a['l'], list(a['p']) + p, depth + 1)
        if r == 'aggr' and rv.get('agg') in ('tuple', 'adt', 'array', 'closure'):
            q = _norm_proj(p)
            # descend into the aggregate's component selected by the leading field projection
            i = 0
            if q and isinstance(q[0], dict) and 'downcast' in q[0]:
                if rv.get('agg') == 'adt' and rv.get('vi') == q[0].get('vi'):
                    i = 1
                else:
                    i = None
            if i is not None and len(q) > i and isinstance(q[i], dict) and rv.get('agg') == 'array' and \
                    ('cidx' in q[i] or 'idx' in q[i]):
                # element of an array literal selected by a constant index
                fi = None
                if 'cidx' in q[i] and not q[i].get('from_end'):
                    fi = q[i]['cidx']
                elif 'idx' in q[i]:
                    io = self._origin_place(q[i]['idx'], [], depth + 1)
                    if io['o'] == 'const' and 'int' in io['c']:
                        fi = int(io['c']['int'])
                if fi is not None and fi < len(rv['ops']):
                    a = rv['ops'][fi]
                    rest = q[i + 1:]
                    if a.get('k') == 'const':
                        return {'o': 'const', 'c': a, 'p': rest}
                    return self._origin_place(a['l'], list(a['p']) + rest, depth + 1)
            if i is not None and len(q) > i and isinstance(q[i], dict) and 'f' in q[i]:
                fi = q[i]['f']
                ops = rv['ops']
                if rv.get('agg') == 'adt' and len(rv.get('fields', [])) == 1 and len(ops) == 1 and rv.get('fields') and \
                        len(rv['fields']) != len(ops):
                    pass
                if fi < len(ops):
                    a = ops[fi]
                    rest = q[i + 1:]
                    if a.get('k') == 'const':
                        return {'o': 'const', 'c': a, 'p': rest}
                    return self._origin_place(a['l'], list(a['p']) + rest, depth + 1)
        return {'o': 'rvalue', 'rv': rv, 'bb': bi, 'si': si, 'p': _norm_proj(p), 'l': l}

    def chain(self, op, limit=30):
        """Locals an operand's value is copied through: [(local, def bb or None), ...] from the operand back."""
        out = []
        pl = place_of(op)
        while pl is not None and len(out) < limit:
            l = pl['l']
            d = self.defs.single(l)
            out.append((l, d[0] if d else None))
            if pl['p'] or d is None or d[2] != 'assign' or d[3]['r'] != 'use':
                break
            pl = place_of(d[3]['a'])
        return out

    def root_local(self, op):
        """The non-temporary local (or arg) an operand ultimately reads, with field path."""
        o = self.origin(op)
        if o['o'] in ('arg', 'local'):
            return o['l'], field_path(o['p'])
        return None, None


def uses_of_local(body, l):
    """Yield (bb, idx|'term', role) for every syntactic read of local l."""
    def in_op(op):
        return isinstance(op, dict) and op.get('l') == l and op.get('k') in ('copy', 'move')

    def in_place(pl):
        if pl.get('l') == l:
            return True
        return any(isinstance(e, dict) and e.get('idx') == l for e in pl.get('p', []))

    for bi, bb in enumerate(body.blocks):
        for si, s in enumerate(bb['stmts']):
            if s['s'] != 'assign':
                continue
            rv = s['rv']
            for k in ('a', 'b'):
                if k in rv and in_op(rv[k]):
                    yield bi, si, 'operand'
            if 'place' in rv and in_place(rv['place']):
                yield bi, si, rv['r']
            for o in rv.get('ops', []):
                if in_op(o):
                    yield bi, si, 'aggr'
            if s['place']['p'] and s['place']['l'] == l:
                yield bi, si, 'pwrite'
        t = bb['term']
        if t['t'] == 'call':
            for a in t['args']:
                if in_op(a):
                    yield bi, 'term', 'callarg'
            if in_op(t['func']):
                yield bi, 'term', 'callee'
        elif t['t'] == 'switch':
            if in_op(t['discr']):
                yield bi, 'term', 'switch'
        elif t['t'] == 'assert':
            if in_op(t['cond']):
                yield bi, 'term', 'assert'
        elif t['t'] == 'drop':
            if t['place']['l'] == l:
                yield bi, 'term', 'drop'


def const_value(c):
    """Python value of an exported constant operand (int, float, bool, str) or None."""
    if not isinstance(c, dict) or c.get('k') != 'const':
        return None
    if 'int' in c:
        return int(c['int'])
    if 'bits' in c:
        import struct
        if c.get('fw') == 64:
            return struct.unpack('<d', struct.pack('<Q', int(c['bits'])))[0]
        if c.get('fw') == 32:
            return struct.unpack('<f', struct.pack('<I', int(c['bits'])))[0]
    if 'bool' in c:
        return c['bool']
    if 'str' in c:
        return c['str']
    if 'char' in c:
        return chr(c['char'])
    return None


def callee_name(term, facts=None):
    f = term.get('func', {})
    n = f.get('resolved') or f.get('fn')
    if n is None:
        return None
    return n.replace('packing::', '')


def callee_declared(term):
    f = term.get('func', {})
    n = f.get('fn')
    return n.replace('packing::', '') if n else None


def call_matches(term, *suffixes):
    """True if the call's declared or resolved callee path ends with one of the suffixes."""
    f = term.get('func', {})
    for n in (f.get('resolved'), f.get('fn')):
        if n:
            n = n.replace('packing::', '')
            for s in suffixes:
                if n == s or n.endswith('::' + s) or n.endswith(s):
                    return True
    return False


def copy_web(body, tr, reach, seed):
    """Locals connected to `seed` by plain copies/moves (through temporaries, tuple aggregates and their fields): the
    different names one running value is known by (a helper's parameter and result, a fold's accumulator)."""
    web = {seed}
    changed = True
    while changed:
        changed = False
        for l in range(len(body.locals)):
            for (dbi, si, kind, rv) in tr.defs.of(l):
                if dbi not in reach or kind != 'assign' or rv['r'] != 'use' or 'l' not in rv['a']:
                    continue
                o = tr.origin(rv['a'])
                if o['o'] == 'local' and not o['p']:
                    if o['l'] in web and l not in web:
                        web.add(l)
                        changed = True
                    elif l in web and o['l'] not in web:
                        web.add(o['l'])
                        changed = True
    return web


def const_tuple(facts, c):
    """Integer tuple denoted by a constant operand of aggregate type (`const T: (usize, usize) = (0, 2)`), from the
    constant's exported initialiser; None if it cannot be read off."""
    if not isinstance(c, dict) or 'uneval' not in c or 'promoted' in c:
        return None
    cb = getattr(facts, 'consts', {}).get(facts.norm(c['uneval']))
    if cb is None:
        return None
    from .sym import SymEx
    sx = SymEx(facts)
    try:
        outs = sx.run(cb, [])
    except Exception:
        return None
    if len(outs) != 1:
        return None
    r = sx.deep(outs[0].st, outs[0].ret)
    if isinstance(r, tuple) and r[0] == 'struct':
        vals = []
        for _, x in r[3]:
            if isinstance(x, tuple) and x[0] == 'num' and x[1].denominator == 1:
                vals.append(int(x[1]))
            else:
                return None
        return tuple(vals)
    return None


def const_variant(facts, c):
    """(type name, variant index) of a constant operand that denotes a payload-free enum variant — a promoted `&Enum::V`, a named
    constant — else None."""
    if not isinstance(c, dict) or 'uneval' not in c:
        return None
    from .sym import SymEx, State
    sx = SymEx(facts)
    st = State()
    try:
        if 'promoted' in c:
            v = sx.promoted(st, c)
        else:
            cb = getattr(facts, 'consts', {}).get(facts.norm(c['uneval']))
            if cb is None:
                return None
            outs = sx.run(cb, [], st=st)
            v = outs[0].ret if len(outs) == 1 else None
        for _ in range(3):
            if isinstance(v, tuple) and v[0] == 'ref':
                v = sx.load(st, v)
        v = sx.deep(st, v) if v is not None else None
    except Exception:      # noqa: BLE001
        return None
    if isinstance(v, tuple) and v[0] == 'struct' and v[2] is not None and not v[3]:
        return (v[1], v[2][1])
    return None


def const_int(facts, c):
    """Integer denoted by a constant operand: a literal, a named constant, or a promoted `&K`."""
    if not isinstance(c, dict):
        return None
    if 'int' in c:
        return int(c['int'])
    if 'char' in c:
        return int(c['char'])
    if 'uneval' not in c:
        return None
    from .sym import SymEx, State
    sx = SymEx(facts)
    st = State()
    try:
        if 'promoted' in c:
            v = sx.promoted(st, c)
        else:
            cb = getattr(facts, 'consts', {}).get(facts.norm(c['uneval']))
            if cb is None:
                return None
            outs = sx.run(cb, [], st=st)
            v = outs[0].ret if len(outs) == 1 else None
        for _ in range(3):
            if isinstance(v, tuple) and v[0] == 'ref':
                v = sx.load(st, v)
    except Exception:
        return None
    if isinstance(v, tuple) and v[0] == 'num' and v[1].denominator == 1:
        return int(v[1])
    return None
