"""Load and index the facts exported by driver/ (pkfacts).

Nothing here judges anything; it gives the rule modules convenient, *resolved* access to
MIR bodies, callees, HIR trees, the type graph and impls.
"""
import json
import os
import re


class Body:
    def __init__(self, raw, crate_kind):
        self.raw = raw
        self.crate_kind = crate_kind
        self.path = raw['path']
        self.canon = raw.get('canon')
        self.blocks = raw['blocks']
        self.locals = raw['locals']
        self.arg_count = raw['arg_count']
        self.span = raw['span']
        self.impl_trait = raw.get('impl_trait')
        self.impl_trait_canon = raw.get('impl_trait_canon')
        self.impl_self_adt = raw.get('impl_self_adt')
        self.derived = raw.get('derived', False)
        self.is_closure = raw.get('def_kind') == 'Closure'
        self.closure_of = raw.get('closure_of')
        base = self.path
        m = re.sub(r'(::\{closure#\d+\})+$', '', base)
        self.fn_name = m.rsplit('::', 1)[-1]
        self.file = raw['span']['file']
        self.inlined = []
        self.fused = []
        self.yields = False

    # stable key without line numbers
    @property
    def key(self):
        return self.path

    def where(self):
        return '%s:%d' % (self.span['file'], self.span['line'])

    def local_name(self, i):
        return self.locals[i].get('name')

    def local_ty(self, i):
        return self.locals[i]['ty']

    def calls(self):
        """Yield (bb, term) for every Call terminator (non-cleanup blocks included)."""
        for i, bb in enumerate(self.blocks):
            t = bb['term']
            if t['t'] == 'call':
                yield i, t

    def args(self):
        return list(range(1, self.arg_count + 1))

    def __repr__(self):
        return '<Body %s>' % self.path


_KNOWN = None


def known_fns():
    """Function paths of the reference tree (pk/known_fns.txt): anything else crate-local is a helper of its callers."""
    global _KNOWN
    if _KNOWN is None:
        p = os.path.join(os.path.dirname(os.path.abspath(__file__)), 'known_fns.txt')
        with open(p) as fh:
            _KNOWN = set(l.strip() for l in fh if l.strip() and not l.startswith('#'))
    return _KNOWN


_KNOWN_ADTS = None
NONLIB_KINDS = ('bin', 'test', 'tests', 'bench', 'example')


def known_adts():
    global _KNOWN_ADTS
    if _KNOWN_ADTS is None:
        p = os.path.join(os.path.dirname(os.path.abspath(__file__)), 'known_adts.txt')
        with open(p) as fh:
            _KNOWN_ADTS = set(l.strip() for l in fh if l.strip() and not l.startswith('#'))
    return _KNOWN_ADTS


def moved_items(parsed):
    """{path in this tree: path in the reference tree} for the types and free functions of the reference tree (pk/known_adts.txt,
    pk/known_fns.txt) that are absent under their reference path while exactly one item with the same name exists under
    another module path (and is not itself a reference item)."""
    simple = lambda p: '<' not in p and '{' not in p and '::_::' not in p and not p.startswith('_::')      # noqa: E731
    have_t, have_f = {}, {}
    for d in parsed.values():
        kind = d['kind']
        pre = '' if kind == 'lib' else kind + '::'
        for a in d.get('adts') or []:
            if simple(a['path']):
                have_t[pre + a['path']] = kind
        for rb in d['bodies']:
            if rb.get('def_kind') == 'Fn' and simple(rb['path']):
                have_f[pre + rb['path']] = kind
    out = {}
    for ref_set, have in ((known_adts(), have_t), (set(p for p in known_fns() if simple(p) and _is_free_fn(p)), have_f)):
        for r in sorted(ref_set):
            if not simple(r) or r in have:
                continue
            last = r.rsplit('::', 1)[-1]
            crate = r.split('::', 1)[0] if r.split('::', 1)[0] in NONLIB_KINDS else 'lib'
            cands = [p for p, k in have.items() if p not in ref_set and p.rsplit('::', 1)[-1] == last and k == crate]
            if len(cands) == 1:
                src = cands[0]
                if crate != 'lib':
                    src, r = src[len(crate) + 2:], r[len(crate) + 2:]
                if src != r:
                    out[src] = r
    return out


def renamed_fns(parsed):
    """Function-rename normal form: {path in this tree: path in the reference tree} for a function Q that the reference tree does
    not have while a function P of the reference tree has become a plain forwarder to it (`#[deprecated] fn old(&self, a) { self.new(a)
    }`): P's own parameters handed on in order, the result handed back, nothing else.  Q then IS P (the forwarder is dropped)."""
    known = known_fns()
    out = {}
    drop = []
    for n, d in parsed.items():
        pre = '' if d['kind'] == 'lib' else d['kind'] + '::'
        for rb in d['bodies']:
            if rb.get('def_kind') not in ('Fn', 'AssocFn') or (pre + rb['path']) not in known:
                continue
            calls = [bb['term'] for bb in rb['blocks'] if not bb.get('cleanup') and bb['term']['t'] == 'call']
            if len(calls) != 1:
                continue
            t = calls[0]
            fc = t['func']
            if fc.get('k') != 'const' or not fc.get('fn') or not fc.get('fn_local', True):
                continue
            q = (fc.get('resolved') or fc['fn']).replace('packing::', '')
            q = q.split('::<')[0] if q.endswith('>') and '::<' in q else q
            if (pre + q) in known or q == rb['path'] or '{closure' in q or '<' in q.rsplit('::', 1)[-1]:
                continue
            nargs = rb.get('arg_count', 0)
            if len(t['args']) != nargs or nargs == 0:
                continue
            # every argument is parameter i (possibly re-borrowed / copied through one temporary)
            defs = {}
            for bb in rb['blocks']:
                for st in bb['stmts']:
                    if st['s'] == 'assign' and not st['place']['p']:
                        defs.setdefault(st['place']['l'], []).append(st['rv'])

            def param_of(op, depth=0):
                if 'l' not in op or depth > 3:
                    return None
                pr = [e for e in op['p'] if e != 'deref']
                if pr:
                    return None
                if 1 <= op['l'] <= nargs:
                    return op['l']
                ds = defs.get(op['l']) or []
                if len(ds) != 1:
                    return None
                rv = ds[0]
                if rv['r'] == 'use':
                    return param_of(rv['a'], depth + 1)
                if rv['r'] == 'ref' and not [e for e in rv['place']['p'] if e != 'deref']:
                    return param_of({'l': rv['place']['l'], 'p': []}, depth + 1)
                return None
            if [param_of(a) for a in t['args']] != list(range(1, nargs + 1)):
                continue
            dl = t['dest']['l'] if not t['dest']['p'] else None
            if dl != 0 and not (dl is not None and any(rv['r'] == 'use' and rv['a'].get('l') == dl and not rv['a']['p']
                                                       for rv in defs.get(0, []))):
                continue
            # same owner (method renamed within its impl, or a free function within its module)
            if rb['path'].rsplit('::', 1)[0] != q.rsplit('::', 1)[0] and not (_is_free_fn(rb['path']) and _is_free_fn(q)):
                continue        # (a free function may have moved with its module: `wallpaper::get_x` -> `plane_group::x`)
            if q in out and out[q] != rb['path']:
                continue
            out[q] = rb['path']
            drop.append((n, rb['path']))
    for n, pth in drop:
        parsed[n]['bodies'] = [rb for rb in parsed[n]['bodies'] if not (rb['path'] == pth or rb['path'].startswith(pth + '::{closure'))]
    return out


_KNOWN_FIELDS = None


def known_fields():
    """{struct path of the reference tree: [(field name, field type), ...]} (pk/known_fields.txt)."""
    global _KNOWN_FIELDS
    if _KNOWN_FIELDS is None:
        _KNOWN_FIELDS = {}
        p = os.path.join(os.path.dirname(os.path.abspath(__file__)), 'known_fields.txt')
        if os.path.exists(p):
            for ln in open(p):
                if ln.startswith('#') or not ln.strip():
                    continue
                parts = ln.rstrip('\n').split('\t')
                _KNOWN_FIELDS[parts[0]] = [tuple(x.split('|', 1)) for x in parts[1:]]
    return _KNOWN_FIELDS


def renamed_fields(parsed):
    """Field-rename normal form: {struct path: {name in this tree: name in the reference tree}} for the structs of the reference tree
    whose fields have the same types in the same order as there while some are spelled differently (a readability rename,
    `#[serde(rename = ..)]` keeping the files as they were).  A reference name that shows up at another position means the
    fields were re-ordered, not renamed: no mapping then."""
    ref = known_fields()
    out = {}
    for d in parsed.values():
        if d['kind'] != 'lib':
            continue
        for a in d.get('adts') or []:
            r = ref.get(a['path'])
            fl = a.get('fields') or []
            if not r or len(a.get('variants') or []) > 1 or len(fl) != len(r):
                continue
            names = [x['name'] for x in fl]
            rnames = [x[0] for x in r]
            if names == rnames or any(x.get('ty') != t for x, (_n, t) in zip(fl, r)):
                continue
            if any(n in rnames and rnames.index(n) != i for i, n in enumerate(names)):
                continue
            if len(set(names)) != len(names):
                continue
            out[a['path']] = {n: rn for n, rn in zip(names, rnames) if n != rn}
    return out


def _apply_field_renames(node, ren):
    """Rewrite field names in place: ADT descriptions, place projections ({'f', 'n', 'of'}) and struct aggregates."""
    def adt_of(ty):
        t = (ty or '').replace('packing::', '')
        for pre in ('&mut ', '&'):
            while t.startswith(pre):
                t = t[len(pre):]
        if t.startswith("'"):
            t = t.split(' ', 1)[1] if ' ' in t else t
        i = t.find('<')
        return t[:i] if i >= 0 else t
    stack = [node]
    while stack:
        x = stack.pop()
        if isinstance(x, dict):
            if 'n' in x and 'of' in x and 'f' in x:
                m = ren.get(adt_of(x['of']))
                if m and x['n'] in m:
                    x['n'] = m[x['n']]
            if x.get('agg') == 'adt' and isinstance(x.get('fields'), list):
                m = ren.get(adt_of(str(x.get('adt') or '')))
                if m:
                    x['fields'] = [m.get(n, n) for n in x['fields']]
            if isinstance(x.get('path'), str) and x.get('kind') == 'adt' and isinstance(x.get('variants'), list) and x['path'] in ren:
                for v in x['variants']:
                    for fl in (v.get('fields') or []) if isinstance(v, dict) else []:
                        if isinstance(fl, dict) and fl.get('name') in ren[x['path']]:
                            fl['name'] = ren[x['path']][fl['name']]
            if isinstance(x.get('path'), str) and isinstance(x.get('fields'), list) and x['path'] in ren:
                for fl in x['fields']:
                    if isinstance(fl, dict) and fl.get('name') in ren[x['path']]:
                        fl['name'] = ren[x['path']][fl['name']]
            stack.extend(x.values())
        elif isinstance(x, list):
            stack.extend(x)


def _is_free_fn(p):
    segs = p.split('::')
    return len(segs) >= 2 and all(s[:1].islower() or s[:1] == '_' for s in segs)


def callee_info(term):
    """Return dict(declared=..., resolved=..., trait=..., self_ty=..., gargs=[...]) for a Call."""
    f = term['func']
    if f.get('k') != 'const' or 'fn' not in f:
        return None
    return f


class Facts:
    def __init__(self, facts_dir, normalise=True):
        self.dir = facts_dir
        self.crates = []
        self.bodies = {}      # normalised path -> Body
        self.consts = {}      # normalised path -> Body of a named constant's initialiser
        self.by_canon = {}    # crate-qualified canonical def path -> Body
        self.hir = {}         # normalised path -> hir tree
        self.types = {}
        self.adts = {}
        self.impls = []
        self.statics = []
        self.files = []
        self.build = None     # resolved cargo build graph {'root':..., 'nodes':[{name,version,features,deps}]}
        bg = os.path.join(facts_dir, 'BUILD.graph')
        if os.path.exists(bg):
            with open(bg) as fh:
                self.build = json.load(fh)
        names = sorted(os.listdir(facts_dir))
        texts = {}
        for n in names:
            if not n.endswith('.json') or n == 'META.json':
                continue
            with open(os.path.join(facts_dir, n)) as fh:
                texts[n] = fh.read()
        # module-move normal form: a type or free function of the reference tree that now lives in another module (a file
        # split into submodules with `pub use` re-exports) is given its reference path back, everywhere
        self.moved = {}
        if normalise:
            parsed = {n: json.loads(t) for n, t in texts.items()}
            self.moved = moved_items(parsed)
            if self.moved:
                import re as _re
                pat = _re.compile('(?<![A-Za-z0-9_])(' + '|'.join(_re.escape(k) for k in sorted(self.moved, key=len, reverse=True)) +
                                  ')(?![A-Za-z0-9_])')
                texts = {n: pat.sub(lambda m: self.moved[m.group(1)], t) for n, t in texts.items()}
                parsed = {n: json.loads(t) for n, t in texts.items()}
            # function-rename normal form: a reference function that has become a forwarder to a new name
            self.renamed_fns = renamed_fns(parsed)
            if self.renamed_fns:
                import re as _re
                texts = {n: json.dumps(d) for n, d in parsed.items()}
                subst = dict(self.renamed_fns)
                # (the other crates of the workspace name a library item by its visible path, e.g. the re-export at the crate root:
                # `packing::MCOptimiser::optimise`)
                for q, p_ in self.renamed_fns.items():
                    qs, ps = q.split('::'), p_.split('::')
                    if len(qs) >= 2 and qs[-2][:1].isupper():
                        subst.setdefault('packing::' + '::'.join(qs[-2:]), 'packing::' + '::'.join(ps[-2:]))
                    elif len(qs) >= 2:
                        subst.setdefault('packing::' + q, 'packing::' + p_)
                pat = _re.compile('(?<![A-Za-z0-9_])(' + '|'.join(_re.escape(k) for k in sorted(subst, key=len, reverse=True)) +
                                  ')(?![A-Za-z0-9_])')
                texts = {n: pat.sub(lambda m: subst[m.group(1)], t) for n, t in texts.items()}
                parsed = {n: json.loads(t) for n, t in texts.items()}
            # field-rename normal form (after the paths are the reference's)
            self.renamed = renamed_fields(parsed)
            if self.renamed:
                for d in parsed.values():
                    _apply_field_renames(d, self.renamed)
        else:
            parsed = None
        for n in names:
            if n not in texts:
                continue
            d = parsed[n] if parsed is not None else json.loads(texts[n])
            self.files.append(n)
            self.crates.append({'crate': d['crate'], 'kind': d['kind'], 'root_file': d['root_file'],
                                'n_bodies': len(d['bodies'])})
            kind = d['kind']
            for rb in d['bodies']:
                from .vecmacro import rewrite as _vec_rewrite
                _vec_rewrite(rb)
                b = Body(rb, kind)
                if rb.get('def_kind', '').startswith(('Const', 'AssocConst', 'Static')):
                    self.consts[self.norm(b.path)] = b      # initialisers of named constants: never call-graph nodes
                    continue
                key = b.path
                if kind != 'lib' and key in self.bodies:
                    key = kind + '::' + key
                self.bodies[key] = b
                b.key_in_facts = key
                if b.canon:
                    self.by_canon[b.canon] = b
            for h in d.get('hir') or []:
                k = h['path']
                if kind != 'lib' and k in self.hir:
                    k = kind + '::' + k
                self.hir[k] = h
            if kind == 'lib':
                self.types.update(d.get('types') or {})
            else:
                for k, v in (d.get('types') or {}).items():
                    self.types.setdefault(self.norm(k), v)
            for a in d.get('adts') or []:
                a = dict(a)
                a['crate_kind'] = kind
                self.adts[a['path']] = a
            for im in d.get('impls') or []:
                im = dict(im)
                im['crate_kind'] = kind
                self.impls.append(im)
            for s in d.get('statics') or []:
                s = dict(s)
                s['crate_kind'] = kind
                self.statics.append(s)
        self.kinds = set(c['kind'] for c in self.crates)
        self.helpers = {}
        self.normalised = []
        self._loopforms = {}
        self._nestforms = {}
        self.monomorphised = []
        if normalise:
            from .provided import monomorphise_provided
            self.monomorphised = monomorphise_provided(self)
        from .forward import lower_forwarders
        self.forwarded = lower_forwarders(self)
        if normalise:
            from .inline import normalise as _normalise
            _normalise(self, known_fns())

    # -- naming -----------------------------------------------------------------------
    @staticmethod
    def norm(path):
        """Paths seen from the bin crate name lib items `packing::x::y`; normalise to `x::y`."""
        if path is None:
            return None
        return path.replace('packing::', '')

    def body(self, path):
        return self.bodies.get(self.norm(path))

    def type_info(self, ty):
        """Type-graph node of a type given with or without its generic arguments (`Analysis`, `Analysis<'_>`)."""
        base = self.norm(ty or '').split('<')[0].strip()
        ti = self.types.get(ty) or self.types.get(base)
        if ti is None:
            hits = [v for k, v in self.types.items() if k.split('<')[0] == base and v.get('kind') == 'adt']
            ti = hits[0] if len(hits) == 1 else None
        return ti

    def body_of_fnconst(self, fc):
        """Workspace body denoted by an exported function constant (canonical path first)."""
        for k in ('resolved_canon', 'fn_canon'):
            c = fc.get(k)
            if c and c in self.by_canon:
                b = self.by_canon[c]
                if k == 'fn_canon' and not fc.get('resolved') and self._overridden_default(b):
                    return None
                return b
        for k in ('resolved', 'fn'):
            c = fc.get(k)
            if c:
                b = self.body(c)
                if b is not None:
                    if k == 'fn' and not fc.get('resolved') and self._overridden_default(b):
                        return None
                    return b
        return None

    def _overridden_default(self, b):
        """b is the provided (default) body of a trait method that at least one workspace impl overrides: a call the compiler
        could not resolve (generic / dyn receiver) does NOT denote this body."""
        if b.is_closure or b.raw.get('def_kind') != 'AssocFn' or b.impl_self_adt or b.impl_trait:
            return False
        ov = getattr(self, '_overridden', None)
        if ov is None:
            ov = set()
            for im in self.impls:
                if im.get('trait'):
                    for fn in im.get('fns') or []:
                        if not (self.bodies.get(fn) is not None and self.bodies[fn].raw.get('synthesised_from')):
                            ov.add('%s::%s' % (self.norm(im['trait']), fn.rsplit('::', 1)[-1]))
            self._overridden = ov
        tpath, _, name = b.path.rpartition('::')
        return '%s::%s' % (self.norm(tpath), name) in ov

    def find_bodies(self, pred):
        return [b for b in self.bodies.values() if pred(b)]

    def fn(self, self_adt=None, trait=None, name=None, closure=False):
        """Bodies selected by meaning: impl self ADT, trait (suffix match), fn name."""
        out = []
        for b in self.bodies.values():
            if b.is_closure != closure:
                continue
            if name is not None and b.fn_name != name:
                continue
            if self_adt is not None and self.norm(b.impl_self_adt or '') != self_adt:
                continue
            if trait is not None:
                if not b.impl_trait or not self.norm(b.impl_trait).endswith(trait):
                    continue
            elif trait is None and self_adt is not None and False:
                pass
            out.append(b)
        return out

    def one(self, **kw):
        r = self.fn(**kw)
        if len(r) > 1 and kw.get('trait') is None and kw.get('self_adt') is not None:
            # `Type::name` without a trait means the inherent method; a trait impl that happens to have a method of the same
            # name (added next to it) is another function
            inh = [b for b in r if not b.impl_trait]
            if len(inh) == 1:
                return inh[0]
        if len(r) != 1:
            return None
        return r[0]

    def loop_form(self, body):
        """The body with Iterator consumers (any/all/fold/sum/for_each) rewritten as explicit loops (pk/loopform.py)."""
        k = getattr(body, 'key_in_facts', body.path)
        if k not in self._loopforms:
            from .loopform import loop_form
            self._loopforms[k] = loop_form(self, body)
        return self._loopforms[k]

    def nest_form(self, body, yields=True, collects=False):
        """loop_form + adaptor fusion + returned iterator as a yield loop (pk/loopform.py); collects=True also reads
        `chain.collect::<Vec<_>>()` as the fill loop it is."""
        k = (getattr(body, 'key_in_facts', body.path), yields, collects)
        if k not in self._nestforms:
            from .loopform import nest_form
            self._nestforms[k] = nest_form(self, body, yields=yields, collects=collects)
        return self._nestforms[k]

    def closures_of(self, body):
        pres = [body.path + '::{closure#'] + [h + '::{closure#' for h in getattr(body, 'inlined', [])]
        return [b for b in self.bodies.values() if any(b.path.startswith(pre) for pre in pres)]

    def trait_impl_methods(self, trait_suffix, method):
        """All workspace bodies implementing `method` of a trait whose path ends with trait_suffix."""
        return [b for b in self.bodies.values()
                if not b.is_closure and b.fn_name == method and b.impl_trait
                and self.norm(b.impl_trait).endswith(trait_suffix)]

    def hir_of(self, body_or_path):
        p = body_or_path.path if isinstance(body_or_path, Body) else body_or_path
        return self.hir.get(self.norm(p))


def walk_hir(e, fn):
    """Pre-order walk over a HIR json tree, calling fn(node) on every dict with a 'k' or 'p'."""
    if isinstance(e, dict):
        if 'k' in e or 'p' in e:
            fn(e)
        for k, v in e.items():
            if k == 'span':
                continue
            walk_hir(v, fn)
    elif isinstance(e, list):
        for x in e:
            walk_hir(x, fn)


def hir_find(e, pred):
    out = []
    walk_hir(e, lambda n: out.append(n) if pred(n) else None)
    return out
