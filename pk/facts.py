"""Load and index the facts exported by driver/ (pkfacts).

Nothing here judges anything; it gives the rule modules convenient, *resolved* access to
MIR bodies, callees, HIR trees, the type graph and impls.
"""
import json
import os
import re


class Body:
    def __init__(self, raw, crate_kind):
        self.raw = raw
        self.crate_kind = crate_kind
        self.path = raw['path']
        self.canon = raw.get('canon')
        self.blocks = raw['blocks']
        self.locals = raw['locals']
        self.arg_count = raw['arg_count']
        self.span = raw['span']
        self.impl_trait = raw.get('impl_trait')
        self.impl_trait_canon = raw.get('impl_trait_canon')
        self.impl_self_adt = raw.get('impl_self_adt')
        self.derived = raw.get('derived', False)
        self.is_closure = raw.get('def_kind') == 'Closure'
        self.closure_of = raw.get('closure_of')
        base = self.path
        m = re.sub(r'(::\{closure#\d+\})+$', '', base)
        self.fn_name = m.rsplit('::', 1)[-1]
        self.file = raw['span']['file']
        self.inlined = []
        self.fused = []
        self.yields = False

    # stable key without line numbers
    @property
    def key(self):
        return self.path

    def where(self):
        return '%s:%d' % (self.span['file'], self.span['line'])

    def local_name(self, i):
        return self.locals[i].get('name')

    def local_ty(self, i):
        return self.locals[i]['ty']

    def calls(self):
        """Yield (bb, term) for every Call terminator (non-cleanup blocks included)."""
        for i, bb in enumerate(self.blocks):
            t = bb['term']
            if t['t'] == 'call':
                yield i, t

    def args(self):
        return list(range(1, self.arg_count + 1))

    def __repr__(self):
        return '<Body %s>' % self.path


_KNOWN = None


def known_fns():
    """Function paths of the reference tree (pk/known_fns.txt): anything else crate-local is a helper of its callers."""
    global _KNOWN
    if _KNOWN is None:
        p = os.path.join(os.path.dirname(os.path.abspath(__file__)), 'known_fns.txt')
        with open(p) as fh:
            _KNOWN = set(l.strip() for l in fh if l.strip() and not l.startswith('#'))
    return _KNOWN


_KNOWN_ADTS = None
NONLIB_KINDS = ('bin', 'test', 'tests', 'bench', 'example')


def known_adts():
    global _KNOWN_ADTS
    if _KNOWN_ADTS is None:
        p = os.path.join(os.path.dirname(os.path.abspath(__file__)), 'known_adts.txt')
        with open(p) as fh:
            _KNOWN_ADTS = set(l.strip() for l in fh if l.strip() and not l.startswith('#'))
    return _KNOWN_ADTS


def moved_items(parsed):
    """{path in this tree: path in the reference tree} for the types and free functions of the reference tree (pk/known_adts.txt,
    pk/known_fns.txt) that are absent under their reference path while exactly one item with the same name exists under
    another module path (and is not itself a reference item)."""
    simple = lambda p: '<' not in p and '{' not in p and '::_::' not in p and not p.startswith('_::')      # noqa: E731
    have_t, have_f = {}, {}
    for d in parsed.values():
        kind = d['kind']
        pre = '' if kind == 'lib' else kind + '::'
        for a in d.get('adts') or []:
            if simple(a['path']):
                have_t[pre + a['path']] = kind
        for rb in d['bodies']:
            if rb.get('def_kind') == 'Fn' and simple(rb['path']):
                have_f[pre + rb['path']] = kind
    out = {}
    for ref_set, have in ((known_adts(), have_t), (set(p for p in known_fns() if simple(p) and _is_free_fn(p)), have_f)):
        for r in sorted(ref_set):
            if not simple(r) or r in have:
                continue
            last = r.rsplit('::', 1)[-1]
            crate = r.split('::', 1)[0] if r.split('::', 1)[0] in NONLIB_KINDS else 'lib'
            cands = [p for p, k in have.items() if p not in ref_set and p.rsplit('::', 1)[-1] == last and k == crate]
            if len(cands) == 1:
                src = cands[0]
                if crate != 'lib':
                    src, r = src[len(crate) + 2:], r[len(crate) + 2:]
                if src != r:
                    out[src] = r
    return out


def _is_free_fn(p):
    segs = p.split('::')
    return len(segs) >= 2 and all(s[:1].islower() or s[:1] == '_' for s in segs)


def callee_info(term):
    """Return dict(declared=..., resolved=..., trait=..., self_ty=..., gargs=[...]) for a Call."""
    f = term['func']
    if f.get('k') != 'const' or 'fn' not in f:
        return None
    return f


class Facts:
    def __init__(self, facts_dir, normalise=True):
        self.dir = facts_dir
        self.crates = []
        self.bodies = {}      # normalised path -> Body
        self.consts = {}      # normalised path -> Body of a named constant's initialiser
        self.by_canon = {}    # crate-qualified canonical def path -> Body
        self.hir = {}         # normalised path -> hir tree
        self.types = {}
        self.adts = {}
        self.impls = []
        self.statics = []
        self.files = []
        self.build = None     # resolved cargo build graph {'root':..., 'nodes':[{name,version,features,deps}]}
        bg = os.path.join(facts_dir, 'BUILD.graph')
        if os.path.exists(bg):
            with open(bg) as fh:
                self.build = json.load(fh)
        names = sorted(os.listdir(facts_dir))
        texts = {}
        for n in names:
            if not n.endswith('.json') or n == 'META.json':
                continue
            with open(os.path.join(facts_dir, n)) as fh:
                texts[n] = fh.read()
        # module-move normal form: a type or free function of the reference tree that now lives in another module (a file
        # split into submodules with `pub use` re-exports) is given its reference path back, everywhere
        self.moved = {}
        if normalise:
            parsed = {n: json.loads(t) for n, t in texts.items()}
            self.moved = moved_items(parsed)
            if self.moved:
                import re as _re
                pat = _re.compile('(?<![A-Za-z0-9_])(' + '|'.join(_re.escape(k) for k in sorted(self.moved, key=len, reverse=True)) +
                                  ')(?![A-Za-z0-9_])')
                texts = {n: pat.sub(lambda m: self.moved[m.group(1)], t) for n, t in texts.items()}
                parsed = None
        else:
            parsed = None
        for n in names:
            if n not in texts:
                continue
            d = parsed[n] if parsed is not None else json.loads(texts[n])
            self.files.append(n)
            self.crates.append({'crate': d['crate'], 'kind': d['kind'], 'root_file': d['root_file'],
                                'n_bodies': len(d['bodies'])})
            kind = d['kind']
            for rb in d['bodies']:
                from .vecmacro import rewrite as _vec_rewrite
                _vec_rewrite(rb)
                b = Body(rb, kind)
                if rb.get('def_kind', '').startswith(('Const', 'AssocConst', 'Static')):
                    self.consts[self.norm(b.path)] = b      # initialisers of named constants: never call-graph nodes
                    continue
                key = b.path
                if kind != 'lib' and key in self.bodies:
                    key = kind + '::' + key
                self.bodies[key] = b
                b.key_in_facts = key
                if b.canon:
                    self.by_canon[b.canon] = b
            for h in d.get('hir') or []:
                k = h['path']
                if kind != 'lib' and k in self.hir:
                    k = kind + '::' + k
                self.hir[k] = h
            if kind == 'lib':
                self.types.update(d.get('types') or {})
            else:
                for k, v in (d.get('types') or {}).items():
                    self.types.setdefault(self.norm(k), v)
            for a in d.get('adts') or []:
                a = dict(a)
                a['crate_kind'] = kind
                self.adts[a['path']] = a
            for im in d.get('impls') or []:
                im = dict(im)
                im['crate_kind'] = kind
                self.impls.append(im)
            for s in d.get('statics') or []:
                s = dict(s)
                s['crate_kind'] = kind
                self.statics.append(s)
        self.kinds = set(c['kind'] for c in self.crates)
        self.helpers = {}
        self.normalised = []
        self._loopforms = {}
        self._nestforms = {}
        self.monomorphised = []
        if normalise:
            from .provided import monomorphise_provided
            self.monomorphised = monomorphise_provided(self)
        from .forward import lower_forwarders
        self.forwarded = lower_forwarders(self)
        if normalise:
            from .inline import normalise as _normalise
            _normalise(self, known_fns())

    # -- naming -----------------------------------------------------------------------
    @staticmethod
    def norm(path):
        """Paths seen from the bin crate name lib items `packing::x::y`; normalise to `x::y`."""
        if path is None:
            return None
        return path.replace('packing::', '')

    def body(self, path):
        return self.bodies.get(self.norm(path))

    def type_info(self, ty):
        """Type-graph node of a type given with or without its generic arguments (`Analysis`, `Analysis<'_>`)."""
        base = self.norm(ty or '').split('<')[0].strip()
        ti = self.types.get(ty) or self.types.get(base)
        if ti is None:
            hits = [v for k, v in self.types.items() if k.split('<')[0] == base and v.get('kind') == 'adt']
            ti = hits[0] if len(hits) == 1 else None
        return ti

    def body_of_fnconst(self, fc):
        """Workspace body denoted by an exported function constant (canonical path first)."""
        for k in ('resolved_canon', 'fn_canon'):
            c = fc.get(k)
            if c and c in self.by_canon:
                b = self.by_canon[c]
                if k == 'fn_canon' and not fc.get('resolved') and self._overridden_default(b):
                    return None
                return b
        for k in ('resolved', 'fn'):
            c = fc.get(k)
            if c:
                b = self.body(c)
                if b is not None:
                    if k == 'fn' and not fc.get('resolved') and self._overridden_default(b):
                        return None
                    return b
        return None

    def _overridden_default(self, b):
        """b is the provided (default) body of a trait method that at least one workspace impl overrides: a call the compiler
        could not resolve (generic / dyn receiver) does NOT denote this body."""
        if b.is_closure or b.raw.get('def_kind') != 'AssocFn' or b.impl_self_adt or b.impl_trait:
            return False
        ov = getattr(self, '_overridden', None)
        if ov is None:
            ov = set()
            for im in self.impls:
                if im.get('trait'):
                    for fn in im.get('fns') or []:
                        if not (self.bodies.get(fn) is not None and self.bodies[fn].raw.get('synthesised_from')):
                            ov.add('%s::%s' % (self.norm(im['trait']), fn.rsplit('::', 1)[-1]))
            self._overridden = ov
        tpath, _, name = b.path.rpartition('::')
        return '%s::%s' % (self.norm(tpath), name) in ov

    def find_bodies(self, pred):
        return [b for b in self.bodies.values() if pred(b)]

    def fn(self, self_adt=None, trait=None, name=None, closure=False):
        """Bodies selected by meaning: impl self ADT, trait (suffix match), fn name."""
        out = []
        for b in self.bodies.values():
            if b.is_closure != closure:
                continue
            if name is not None and b.fn_name != name:
                continue
            if self_adt is not None and self.norm(b.impl_self_adt or '') != self_adt:
                continue
            if trait is not None:
                if not b.impl_trait or not self.norm(b.impl_trait).endswith(trait):
                    continue
            elif trait is None and self_adt is not None and False:
                pass
            out.append(b)
        return out

    def one(self, **kw):
        r = self.fn(**kw)
        if len(r) > 1 and kw.get('trait') is None and kw.get('self_adt') is not None:
            # `Type::name` without a trait means the inherent method; a trait impl that happens to have a method of the same
            # name (added next to it) is another function
            inh = [b for b in r if not b.impl_trait]
            if len(inh) == 1:
                return inh[0]
        if len(r) != 1:
            return None
        return r[0]

    def loop_form(self, body):
        """The body with Iterator consumers (any/all/fold/sum/for_each) rewritten as explicit loops (pk/loopform.py)."""
        k = getattr(body, 'key_in_facts', body.path)
        if k not in self._loopforms:
            from .loopform import loop_form
            self._loopforms[k] = loop_form(self, body)
        return self._loopforms[k]

    def nest_form(self, body, yields=True, collects=False):
        """loop_form + adaptor fusion + returned iterator as a yield loop (pk/loopform.py); collects=True also reads
        `chain.collect::<Vec<_>>()` as the fill loop it is."""
        k = (getattr(body, 'key_in_facts', body.path), yields, collects)
        if k not in self._nestforms:
            from .loopform import nest_form
            self._nestforms[k] = nest_form(self, body, yields=yields, collects=collects)
        return self._nestforms[k]

    def closures_of(self, body):
        pres = [body.path + '::{closure#'] + [h + '::{closure#' for h in getattr(body, 'inlined', [])]
        return [b for b in self.bodies.values() if any(b.path.startswith(pre) for pre in pres)]

    def trait_impl_methods(self, trait_suffix, method):
        """All workspace bodies implementing `method` of a trait whose path ends with trait_suffix."""
        return [b for b in self.bodies.values()
                if not b.is_closure and b.fn_name == method and b.impl_trait
                and self.norm(b.impl_trait).endswith(trait_suffix)]

    def hir_of(self, body_or_path):
        p = body_or_path.path if isinstance(body_or_path, Body) else body_or_path
        return self.hir.get(self.norm(p))


def walk_hir(e, fn):
    """Pre-order walk over a HIR json tree, calling fn(node) on every dict with a 'k' or 'p'."""
    if isinstance(e, dict):
        if 'k' in e or 'p' in e:
            fn(e)
        for k, v in e.items():
            if k == 'span':
                continue
            walk_hir(v, fn)
    elif isinstance(e, list):
        for x in e:
            walk_hir(x, fn)


def hir_find(e, pred):
    out = []
    walk_hir(e, lambda n: out.append(n) if pred(n) else None)
    return out
