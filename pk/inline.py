"""MIR-level inlining of crate-local helper functions (normalisation, judges nothing).

The rules were written against the function decomposition of the reference tree (pk/known_fns.txt).  A function that is
not in that table is, from the rules' point of view, a piece of one of its callers: its blocks are spliced into every
caller so that the callers' control flow, dataflow and call sites are the ones the rules reason about.  Splicing keeps
every statement, span and resolved callee of the helper; it adds `param = argument` moves at entry and
`destination = move return-slot` at the single exit block.
"""
import copy

from .facts import Body

MAX_DEPTH = 6


def _remap(node, lmap, bmap):
    """Deep-copy a JSON MIR node, shifting local indices by lmap and block indices by bmap (functions)."""
    if isinstance(node, list):
        return [_remap(x, lmap, bmap) for x in node]
    if not isinstance(node, dict):
        return node
    out = {}
    for k, v in node.items():
        if k == 'l' and isinstance(v, int):
            out[k] = lmap(v)
        elif k == 'idx' and isinstance(v, int):
            out[k] = lmap(v)
        elif k in ('target', 'otherwise', 'unwind') and isinstance(v, int) and 't' in node:
            out[k] = bmap(v)
        elif k == 'arms' and 't' in node:
            out[k] = [[a[0], bmap(a[1])] for a in v]
        elif k == 'span' or k == 'fn_span':
            out[k] = v
        else:
            out[k] = _remap(v, lmap, bmap)
    return out


def _tuple_fields(ty):
    """Element types of a tuple type string '(A, B)' (top-level split)."""
    ty = ty.strip()
    if not (ty.startswith('(') and ty.endswith(')')):
        return None
    inner = ty[1:-1]
    out, depth, cur = [], 0, ''
    for ch in inner:
        if ch in '<([':
            depth += 1
        elif ch in '>)]':
            depth -= 1
        if ch == ',' and depth == 0:
            out.append(cur.strip())
            cur = ''
        else:
            cur += ch
    if cur.strip():
        out.append(cur.strip())
    return out


def inline_calls(facts, body, want, max_depth=MAX_DEPTH, lookup=None, only=None):
    """New Body in which every call site with want(callee_body, term) true is replaced by the callee's blocks.
    Returns (body, [inlined callee paths]); the body is returned unchanged if nothing was inlined."""
    lookup = lookup or facts.body_of_fnconst
    raw = None
    inlined = []
    chain = {}      # block index -> tuple of callee paths this block was spliced through
    bi = 0
    blocks = body.blocks
    while bi < len(blocks):
        t = blocks[bi]['term']
        if t['t'] == 'call' and t['func'].get('k') == 'const' and 'fn' in t['func'] and (only is None or bi in only):
            cb = only[bi] if only is not None else lookup(t['func'])
            st = chain.get(bi, ())
            if cb is not None and cb is not body and cb.path != body.path and cb.path not in st and len(st) < max_depth \
                    and want(cb, t):
                if raw is None:
                    raw = dict(body.raw)
                    raw['blocks'] = copy.deepcopy(body.raw['blocks'])
                    raw['locals'] = copy.deepcopy(body.raw['locals'])
                    raw['debug'] = copy.deepcopy(body.raw.get('debug') or [])
                    blocks = raw['blocks']
                    t = blocks[bi]['term']
                _splice(raw, bi, t, cb, chain, st)
                inlined.append(cb.path)
                # the call block now ends in a goto; continue scanning (spliced blocks are at the end)
        bi += 1
    if raw is None:
        return body, []
    nb = Body(raw, body.crate_kind)
    nb.key_in_facts = getattr(body, 'key_in_facts', body.path)
    nb.inlined = sorted(set(inlined) | set(getattr(body, 'inlined', [])))
    nb.original = getattr(body, 'original', body)
    return nb, inlined


def _splice(raw, bi, t, cb, chain, st):
    blocks, locs = raw['blocks'], raw['locals']
    base_l, base_b = len(locs), len(blocks)
    for i, l in enumerate(cb.locals):
        nl = dict(l)
        nl['inl'] = cb.path
        if i == 0:
            nl['name'] = None
        locs.append(nl)
    lmap = lambda v: v + base_l      # noqa: E731
    bmap = lambda v: v + base_b      # noqa: E731
    for d in cb.raw.get('debug') or []:
        raw['debug'].append(_remap(d, lmap, bmap))
    span = t.get('span')
    # entry: parameters receive the arguments
    pro = []
    args = t['args']
    params = list(range(1, cb.arg_count + 1))
    if cb.is_closure and len(args) == 2 and cb.arg_count != 2:
        spread = True
    elif cb.is_closure and len(args) == 2 and cb.arg_count == 2:
        # one declared parameter: the call passes a 1-tuple
        tf = _tuple_fields(args[1].get('ty', ''))
        spread = tf is not None and len(tf) == 1
    else:
        spread = False
    if spread:
        pro.append((params[0], args[0]))
        tup = args[1]
        tf = _tuple_fields(tup.get('ty', '')) or []
        for j, p in enumerate(params[1:]):
            if 'l' in tup:
                op = {'k': tup.get('k', 'move'), 'l': tup['l'],
                      'p': list(tup['p']) + [{'f': j, 'n': str(j), 'of': tup.get('ty', ''), 'ty': tf[j] if j < len(tf) else ''}],
                      'ty': tf[j] if j < len(tf) else ''}
            else:
                op = tup
            pro.append((p, op))
    else:
        for p, a in zip(params, args):
            pro.append((p, a))
    for p, a in pro:
        pty = cb.locals[p]['ty']
        rv = {'r': 'use', 'a': copy.deepcopy(a)}
        if cb.is_closure and p == 1 and pty.startswith('&') and not a.get('ty', '&').startswith('&') and 'l' in a:
            # call through FnOnce of a closure whose body takes its environment by reference (the once-shim)
            rv = {'r': 'ref', 'mut': pty.startswith('&mut'), 'bk': 'Shim', 'place': {'l': a['l'], 'p': list(a['p']), 'ty': a.get('ty')}}
        blocks[bi]['stmts'].append({'s': 'assign', 'place': {'l': lmap(p), 'p': [], 'ty': pty},
                                    'rv': rv, 'span': span, 'inl_arg': cb.path})
    # exit block: destination receives the return slot
    exit_b = base_b + len(cb.blocks)
    dest, target, unwind = t['dest'], t['target'], t.get('unwind')
    for j, bb in enumerate(cb.blocks):
        nbk = _remap(bb, lmap, bmap)
        tt = nbk['term']
        if tt['t'] == 'return':
            nbk['term'] = {'t': 'goto', 'target': exit_b, 'span': tt.get('span'), 'inl_ret': cb.path}
        elif tt['t'] == 'resume' and unwind is not None:
            nbk['term'] = {'t': 'goto', 'target': unwind, 'span': tt.get('span')}
        blocks.append(nbk)
        chain[base_b + j] = st + (cb.path,)
    ret_ty = cb.locals[0]['ty']
    ex = {'stmts': [{'s': 'assign', 'place': copy.deepcopy(dest),
                     'rv': {'r': 'use', 'a': {'k': 'move', 'l': lmap(0), 'p': [], 'ty': ret_ty}}, 'span': span,
                     'inl_ret': cb.path}],
          'term': ({'t': 'goto', 'target': target, 'span': span} if target is not None else {'t': 'unreachable', 'span': span}),
          'cleanup': False}
    blocks.append(ex)
    chain[exit_b] = st
    blocks[bi]['term'] = {'t': 'goto', 'target': base_b, 'span': span, 'inl_call': cb.path,
                          'inl_fn_span': t.get('fn_span')}


CLOSURE_CALLS = ('ops::FnOnce::call_once', 'ops::FnMut::call_mut', 'ops::Fn::call',
                 'ops::function::FnOnce::call_once', 'ops::function::FnMut::call_mut', 'ops::function::Fn::call')


def resolve_closure_calls(facts, body, rounds=4):
    """Calls of a closure-typed *parameter* inside an inlined generic helper are unresolved in the helper's own MIR; once
    spliced, the parameter is a move of a closure the caller built: splice that closure's body too.  A function item
    passed where a closure is expected (`fold(MIN, f64::max)`) becomes a direct call."""
    from .mirutil import Tracer
    total = []
    for _ in range(rounds):
        tr = Tracer(body)
        targets = {}
        direct = {}
        for bi, t in body.calls():
            fc = t['func']
            if fc.get('k') != 'const' or fc.get('resolved_local'):
                continue
            nm = fc.get('fn') or ''
            if not nm.endswith(CLOSURE_CALLS) or not t['args']:
                continue
            o = tr.origin(t['args'][0])
            if o['o'] == 'rvalue' and o['rv'].get('r') == 'aggr' and o['rv'].get('agg') == 'closure' and o['p'] in ([], ['ref']):
                cb = facts.body(o['rv']['closure'])
                if cb is not None:
                    targets[bi] = cb
            elif o['o'] == 'const' and 'closure' in o['c'] and o['p'] in ([], ['ref']):
                cb = facts.body(o['c']['closure'])
                if cb is not None:
                    targets[bi] = cb
            elif o['o'] == 'const' and 'fn' in o['c'] and o['p'] in ([], ['ref']):
                direct[bi] = o['c']
        if direct:
            raw = dict(body.raw)
            raw['blocks'] = copy.deepcopy(body.raw['blocks'])
            for bi, fconst in direct.items():
                t = raw['blocks'][bi]['term']
                tup = t['args'][1] if len(t['args']) > 1 else None
                n = len(_tuple_fields(tup.get('ty', '')) or []) if tup else 0
                if tup is not None and 'l' in tup:
                    t['args'] = [{'k': 'move', 'l': tup['l'], 'p': list(tup['p']) + [{'f': j, 'n': str(j), 'of': tup.get('ty', ''), 'ty': '?'}],
                                  'ty': '?'} for j in range(n)]
                else:
                    t['args'] = []
                t['func'] = copy.deepcopy(fconst)
                t['devirtualised'] = True
            nb = Body(raw, body.crate_kind)
            nb.key_in_facts = getattr(body, 'key_in_facts', body.path)
            nb.inlined = list(getattr(body, 'inlined', []))
            nb.original = getattr(body, 'original', body)
            body = nb
            if not targets:
                continue
        if not targets:
            break
        body, inl = inline_calls(facts, body, lambda cb, t: True, lookup=None, only=targets)
        if not inl:
            break
        total += inl
    return body, total


# A function of the reference decomposition may be renamed or moved (`analyse_state` -> `Run::analyse_state`).  Splicing its
# replacement into ITS callers would dissolve the unit the rules reason about (the replica pipeline would appear once per
# arm of main's match).  For each role below — a reference function identified by a construct only it contains — whose
# reference path is absent from the tree, the outermost unknown function that contains the construct (directly or through
# other unknown functions) takes the role: it is kept as a function, everything below it is spliced into it as usual.
ROLES = (
    {'reference': 'bin::analyse_state', 'crate': 'bin',
     'construct': lambda t: (t['func'].get('trait') or '').endswith('ParallelIterator') and
     (t['func'].get('fn') or '').rsplit('::', 1)[-1] in ('max', 'max_by', 'min', 'min_by', 'max_by_key', 'min_by_key', 'reduce',
                                                        'reduce_with', 'find_any', 'find_first', 'collect')},
    # the acceptance decision (reference: accept_score, which draws the random number through test_acceptance): the outermost
    # unknown function that makes a float / bool draw and neither proposes a move nor evaluates the state
    {'reference': 'optimisation::MCOptimiser::accept_score', 'crate': 'lib',
     'construct': lambda t: (t['func'].get('trait') or '').endswith('Rng') and
     (t['func'].get('fn') or '').rsplit('::', 1)[-1] in ('gen', 'gen_bool', 'gen_range', 'sample', 'gen_ratio') and
     (t.get('dest') or {}).get('ty') in ('f64', 'f32', 'bool'),
     'exclude': lambda t: (t['func'].get('trait') or '').endswith(('Basis', 'State')) and
     (t['func'].get('fn') or '').rsplit('::', 1)[-1] in ('set_sampled', 'score', 'reset_value', 'set_value')},
    # the stepping function (reference: optimise_state, which is normally there): an unknown function that proposes moves and is
    # called from two or more other functions stays a function
    {'reference': 'optimisation::MCOptimiser::optimise_state', 'crate': 'lib', 'shared': True,
     'construct': lambda t: (t['func'].get('trait') or '').endswith('Basis') and
     (t['func'].get('fn') or '').rsplit('::', 1)[-1] == 'set_sampled'},
    # the overlap test of the hard state (reference: check_intersection): the outermost unknown method of PackedState that
    # compares shapes with Intersect::intersects
    {'reference': 'state::packed::PackedState::<S>::check_intersection', 'crate': 'lib', 'self_adt': 'state::packed::PackedState',
     'construct': lambda t: (t['func'].get('trait') or '').endswith('Intersect') and
     (t['func'].get('fn') or '').rsplit('::', 1)[-1] == 'intersects'},
)


import re as _re_mod
_re_closure = _re_mod.compile(r'(::\{closure#\d+\})+$')


def _role_keepers(facts, known, helpers):
    keep = []
    for role in ROLES:
        ref = role['reference']
        if ref in known and (ref in facts.bodies or ref.split('::', 1)[-1] in facts.bodies) and not role.get('shared'):
            continue            # the reference function is there
        cand = {}
        calls = {}
        for k, b in helpers.items():
            if b.crate_kind != role['crate']:
                continue
            if role.get('self_adt') and facts.norm(b.impl_self_adt or '') != role['self_adt']:
                continue
            direct = any(role['construct'](t) for _bi, t in b.calls())
            # closures of the function count as the function
            for c in facts.closures_of(b):
                direct = direct or any(role['construct'](t) for _bi, t in c.calls())
            cand[k] = direct
            cs = set()
            for bb in [b] + list(facts.closures_of(b)):
                for _bi, t in bb.calls():
                    cb = facts.body_of_fnconst(t['func'])
                    if cb is not None:
                        cs.add(getattr(cb, 'key_in_facts', cb.path))
            calls[k] = cs
        changed = True
        while changed:
            changed = False
            for k in cand:
                if not cand[k] and any(cand.get(c) for c in calls[k]):
                    cand[k] = True
                    changed = True
        holders = [k for k, v in cand.items() if v]
        if role.get('exclude'):
            excl = {}
            for k, b in helpers.items():
                if b.crate_kind != role['crate']:
                    continue
                excl[k] = any(role['exclude'](t) for bb in [b] + list(facts.closures_of(b)) for _bi, t in bb.calls())
            changed = True
            while changed:
                changed = False
                for k in excl:
                    if not excl[k] and any(excl.get(c) for c in calls[k]):
                        excl[k] = True
                        changed = True
            holders = [k for k in holders if not excl.get(k)]
        outer = [k for k in holders if not any(k in calls[o] for o in holders if o != k)]
        if role.get('shared'):
            # the reference function is there, but the work has moved into an unknown function that OTHER functions call too
            # (`optimise_state` now wraps a public `try_optimise_state` the CLI calls directly): splicing it into every caller
            # would copy the role into each of them; it is kept where it is
            keepers = []
            for k in outer:
                callers = set()
                for k2, b2 in facts.bodies.items():
                    if k2 == k:
                        continue
                    for _bi, t in b2.calls():
                        cb = facts.body_of_fnconst(t['func'])
                        if cb is not None and getattr(cb, 'key_in_facts', cb.path) == k:
                            callers.add(_re_closure.sub('', k2))
                if len(callers) >= 2:
                    keepers.append(k)
            if len(keepers) == 1:
                keep.append(keepers[0])
            continue
        if len(outer) == 1:
            keep.append(outer[0])
    return keep


def known_default_types():
    """Types of the reference tree that derive Default (none: kept as a function so the reference decomposition stays
    untouched if one is ever added to pk/known_fns.txt)."""
    return ()


def normalise(facts, known):
    """Inline every call to a crate-local plain function that the reference tree does not have (see module doc).
    Bodies of such helpers that cannot be reached from outside the crate are taken out of facts.bodies (kept in
    facts.helpers); their closures stay and are reported by facts.closures_of(caller)."""
    # `Trait::method` for every `<T as Trait>::method` of the reference tree
    import re as _re
    provided = set()
    for kf in known:
        m = _re.match(r'^<.* as ([A-Za-z0-9_:]+)(?:<.*>)?>::([A-Za-z0-9_]+)$', kf)
        if m:
            provided.add('%s::%s' % (m.group(1), m.group(2)))

    # (also insensitive to the NAME of a single-letter type parameter: `PackedState<S>` / `PackedState<T>`)
    _lt = lambda p_: _re.sub(r"(?<![A-Za-z0-9_:])[A-Z](?![A-Za-z0-9_])", "T", _re.sub(r"'[A-Za-z_][A-Za-z0-9_]*", "'_", p_))      # noqa: E731
    known_lt = {_lt(k) for k in known}

    def is_helper(b):
        if b is None or b.is_closure:
            return False
        if b.derived:
            # `#[derive(Default)]` on a workspace struct is a constructor like any hand-written `new()`
            return b.fn_name == 'default' and (b.impl_trait or '').endswith('Default') and \
                facts.norm(b.impl_self_adt or '') not in known_default_types()
        # a method of a trait impl the reference tree does not have (e.g. `impl From<Option<f64>> for NewEnum`) is a helper too
        # wherever the call resolves to it statically
        if b.raw.get('def_kind') not in ('Fn', 'AssocFn'):
            return False
        key = ('%s::%s' % (b.crate_kind, b.path)) if b.crate_kind != 'lib' else b.path
        if key not in known and b.path not in known and b.path in provided:
            return False        # a method the reference tree implements per type, now provided by the trait: same role
        if key not in known and b.path not in known and (_lt(key) in known_lt or _lt(b.path) in known_lt):
            return False        # the same function with its lifetime parameters renamed or elided (`impl Basis for X<'_>`)
        return key not in known and b.path not in known
    helpers = {k: b for k, b in facts.bodies.items() if is_helper(b)}
    facts.helpers = {}
    if not helpers:
        return []
    for k in _role_keepers(facts, known, helpers):
        helpers.pop(k, None)
    hset = set(id(b) for b in helpers.values())
    want = lambda cb, t: id(cb) in hset      # noqa: E731
    changed = []
    originals = dict(facts.bodies)
    lookup = lambda fc: _lookup(facts, originals, fc)   # noqa: E731
    for k, b in list(originals.items()):
        nb, inl = inline_calls(facts, b, want, lookup=lookup)
        if inl:
            nb, inl2 = resolve_closure_calls(facts, nb)
            nb.inlined = sorted(set(nb.inlined) | set(inl2))
            from .thread import thread as _thread
            _inl = nb.inlined
            nb = _thread(nb)        # a spliced helper's Ok/Err, Some/None results go straight to the arm they select
            nb.inlined = _inl
            facts.bodies[k] = nb
            nb.key_in_facts = k
            if nb.canon:
                facts.by_canon[nb.canon] = nb
            changed.append((k, inl))
    called = set()
    for k, inl in changed:
        called.update(inl)
    # a helper some body still calls (a call inside a closure that could not be spliced) stays a body of its own: the call graph
    # has an edge to it
    still = set()
    for k, b in facts.bodies.items():
        if k in helpers:
            continue
        from .callgraph import _fn_consts_in_operand
        fcs = []
        for bb in b.blocks:
            for st in bb['stmts']:
                if st['s'] == 'assign':
                    rv = st['rv']
                    ops = rv['ops'] if rv['r'] == 'aggr' else ([rv['a']] + ([rv['b']] if 'b' in rv else []) if 'a' in rv else [])
                    for op in ops:
                        fcs.extend(_fn_consts_in_operand(op))       # the helper handed on as a value (`.map(Line2::segment)`)
            t = bb['term']
            if t['t'] in ('call', 'tailcall'):
                if t['func'].get('k') == 'const' and 'fn' in t['func']:
                    fcs.append(t['func'])
                for a in t['args']:
                    fcs.extend(_fn_consts_in_operand(a))
        for fc in fcs:
            for g in [fc] + [{'k': 'const', 'fn': g_} for g_ in (fc.get('garg_fns') or [])]:
                cb = facts.body_of_fnconst(g) if 'ty' in g or g is fc else facts.body(g['fn'])
                if cb is not None and id(originals.get(getattr(cb, 'key_in_facts', cb.path), cb)) in hset:
                    still.add(cb.path)
    for k, b in helpers.items():
        if b.raw.get('vis') != 'Public' and b.path in called and b.path not in still:
            facts.helpers[k] = facts.bodies.pop(k)
    facts.normalised = changed
    return changed


def _lookup(facts, originals, fc):
    b = facts.body_of_fnconst(fc)
    if b is None:
        return None
    # always splice the helper's own (un-inlined) blocks; nested helper calls are handled by the scan
    return originals.get(getattr(b, 'key_in_facts', b.path), b)
