"""Abstract values: IEEE-754 float classes (11-element partition) and integer intervals, with
abstract evaluation of symbolic expressions (pk/sym.py values).

Float classes:  nan  -inf  nb=(-inf,-1)  -1  ns=(-1,0)  -0  +0  ps=(0,1)  1  pb=(1,+inf)  +inf
Transfer functions over-approximate IEEE round-to-nearest arithmetic, including underflow to
(signed) zero and overflow to infinity.
"""
from fractions import Fraction

CLASSES = ('nan', '-inf', 'nb', '-1', 'ns', '-0', '+0', 'ps', '1', 'pb', '+inf')
ORDER = {c: i for i, c in enumerate(CLASSES)}
FTOP = frozenset(CLASSES)
FINITE = frozenset(('nb', '-1', 'ns', '-0', '+0', 'ps', '1', 'pb'))
NONNEG_FINITE = frozenset(('+0', 'ps', '1', 'pb'))
ZEROS = frozenset(('-0', '+0'))
INF = float('inf')

# real intervals of the non-zero finite classes: (lo, hi, lo_open, hi_open)
IV = {'nb': (-INF, -1, True, True), '-1': (-1, -1, False, False), 'ns': (-1, 0, True, True),
      'ps': (0, 1, True, True), '1': (1, 1, False, False), 'pb': (1, INF, True, True)}
NEG = {'nan': 'nan', '-inf': '+inf', '+inf': '-inf', 'nb': 'pb', 'pb': 'nb', '-1': '1', '1': '-1',
       'ns': 'ps', 'ps': 'ns', '-0': '+0', '+0': '-0'}


def F(*cs):
    return ('f', frozenset(cs))


def fset(v):
    return v[1]


def IVL(lo, hi):
    return ('i', lo, hi)     # None = unbounded


BTOP = ('b', frozenset((True, False)))


def B(*vs):
    return ('b', frozenset(vs))


TOP = ('top',)


def sign(c):
    return -1 if c in ('-inf', 'nb', '-1', 'ns', '-0') else 1


def mag(c):
    return {'nb': 'b', 'pb': 'b', '-1': '1', '1': '1', 'ns': 's', 'ps': 's'}.get(c)


def signed(m, s):
    return {('b', 1): 'pb', ('b', -1): 'nb', ('1', 1): '1', ('1', -1): '-1', ('s', 1): 'ps', ('s', -1): 'ns',
            ('0', 1): '+0', ('0', -1): '-0', ('inf', 1): '+inf', ('inf', -1): '-inf'}[(m, s)]


def class_of_number(q):
    q = Fraction(q)
    if q == 0:
        return '+0'
    if q == 1:
        return '1'
    if q == -1:
        return '-1'
    if q > 1:
        return 'pb'
    if q > 0:
        return 'ps'
    if q > -1:
        return 'ns'
    return 'nb'


def _mul1(a, b):
    if a == 'nan' or b == 'nan':
        return {'nan'}
    s = sign(a) * sign(b)
    ainf, binf = a in ('-inf', '+inf'), b in ('-inf', '+inf')
    az, bz = a in ZEROS, b in ZEROS
    if (ainf and bz) or (binf and az):
        return {'nan'}
    if ainf or binf:
        return {signed('inf', s)}
    if az or bz:
        return {signed('0', s)}
    ma, mb = mag(a), mag(b)
    pair = tuple(sorted((ma, mb)))
    res = {('b', 'b'): ['b', 'inf'], ('1', 'b'): ['b'], ('b', 's'): ['s', '1', 'b'], ('1', '1'): ['1'],
           ('1', 's'): ['s'], ('s', 's'): ['s', '0']}[pair]
    return {signed(m, s) for m in res}


def _div1(a, b):
    if a == 'nan' or b == 'nan':
        return {'nan'}
    s = sign(a) * sign(b)
    ainf, binf = a in ('-inf', '+inf'), b in ('-inf', '+inf')
    az, bz = a in ZEROS, b in ZEROS
    if (ainf and binf) or (az and bz):
        return {'nan'}
    if ainf:
        return {signed('inf', s)}
    if binf:
        return {signed('0', s)}
    if bz:
        return {signed('inf', s)}
    if az:
        return {signed('0', s)}
    ma, mb = mag(a), mag(b)
    res = {('b', 'b'): ['s', '1', 'b'], ('b', '1'): ['b'], ('b', 's'): ['b', 'inf'], ('1', 'b'): ['s'],
           ('1', '1'): ['1'], ('1', 's'): ['b', 'inf'], ('s', 'b'): ['s', '0'], ('s', '1'): ['s'],
           ('s', 's'): ['s', '1', 'b', 'inf']}[(ma, mb)]
    return {signed(m, s) for m in res}


def _overlaps(lo, hi, lo_open, hi_open, c):
    clo, chi, co1, co2 = IV[c]
    # intersection non-empty?
    L = max(lo, clo)
    H = min(hi, chi)
    if L > H:
        return False
    if L < H:
        return True
    # single point L == H: must be included by both
    inc1 = not ((L == lo and lo_open) or (L == hi and hi_open))
    inc2 = not ((L == clo and co1) or (L == chi and co2))
    return inc1 and inc2 and L not in (INF, -INF)


def _add1(a, b):
    if a == 'nan' or b == 'nan':
        return {'nan'}
    ainf, binf = a in ('-inf', '+inf'), b in ('-inf', '+inf')
    if ainf and binf:
        return {a} if a == b else {'nan'}
    if ainf:
        return {a}
    if binf:
        return {b}
    az, bz = a in ZEROS, b in ZEROS
    if az and bz:
        return {'-0'} if (a == '-0' and b == '-0') else {'+0'}
    if az:
        return {b}
    if bz:
        return {a}
    alo, ahi, ao1, ao2 = IV[a]
    blo, bhi, bo1, bo2 = IV[b]
    lo, hi = alo + blo, ahi + bhi
    lo_open, hi_open = ao1 or bo1, ao2 or bo2
    out = {c for c in IV if _overlaps(lo, hi, lo_open, hi_open, c)}
    # exact cancellation
    if (lo < 0 < hi) or (lo == 0 and not lo_open) or (hi == 0 and not hi_open):
        out.add('+0')
    if a == 'pb' and b == 'pb':
        out.add('+inf')
    if a == 'nb' and b == 'nb':
        out.add('-inf')
    # rounding onto a class boundary (e.g. tiny + 1 == 1)
    if lo < 1 < hi or hi == 1 or lo == 1:
        if _overlaps(lo, hi, lo_open, hi_open, 'ps') or _overlaps(lo, hi, lo_open, hi_open, 'pb'):
            out.add('1')
    if lo < -1 < hi or hi == -1 or lo == -1:
        if _overlaps(lo, hi, lo_open, hi_open, 'ns') or _overlaps(lo, hi, lo_open, hi_open, 'nb'):
            out.add('-1')
    return out


def _lift2(fn):
    def g(x, y):
        out = set()
        for a in x:
            for b in y:
                out |= fn(a, b)
        return frozenset(out)
    return g


fmul = _lift2(_mul1)
fdiv = _lift2(_div1)
fadd = _lift2(_add1)


def fneg(x):
    return frozenset(NEG[c] for c in x)


def fsub(x, y):
    return fadd(x, fneg(y))


def fexp(x):
    m = {'nan': {'nan'}, '-inf': {'+0'}, '+inf': {'+inf'}, 'nb': {'ps', '+0'}, '-1': {'ps'}, 'ns': {'ps', '1'},
         '-0': {'1'}, '+0': {'1'}, 'ps': {'pb', '1'}, '1': {'pb'}, 'pb': {'pb', '+inf'}}
    out = set()
    for c in x:
        out |= m[c]
    return frozenset(out)


def fmin(x, y, is_min=True):
    """Rust f64::min / f64::max: a NaN operand is ignored."""
    out = set()
    for a in x:
        for b in y:
            if a == 'nan' and b == 'nan':
                out.add('nan')
            elif a == 'nan':
                out.add(b)
            elif b == 'nan':
                out.add(a)
            elif a in ZEROS and b in ZEROS:
                out |= {a, b}
            elif ORDER[a] < ORDER[b]:
                out.add(a if is_min else b)
            elif ORDER[a] > ORDER[b]:
                out.add(b if is_min else a)
            else:
                out.add(a)
    return frozenset(out)


def fpowf(x, y):
    out = set()
    for a in x:
        for b in y:
            if b in ZEROS or a == '1':
                out.add('1')
            elif a == 'nan' or b == 'nan':
                out.add('nan')
            elif b in ('ps', '1', 'pb', '+inf'):   # positive exponent
                if a == '+inf':
                    out.add('+inf')
                elif a == '+0':
                    out.add('+0')
                elif a == 'ps':
                    out |= {'ps', '1', '+0'}
                elif a == 'pb':
                    out |= {'pb', '1', '+inf'}
                else:
                    out |= set(CLASSES)
            elif b in ('ns', '-1', 'nb', '-inf'):  # negative exponent
                if a == '+inf':
                    out.add('+0')
                elif a == '+0':
                    out.add('+inf')
                elif a == 'ps':
                    out |= {'pb', '1', '+inf'}
                elif a == 'pb':
                    out |= {'ps', '1', '+0'}
                else:
                    out |= set(CLASSES)
            else:
                out |= set(CLASSES)
    return frozenset(out)


def fsqrt(x):
    m = {'nan': {'nan'}, '-inf': {'nan'}, 'nb': {'nan'}, '-1': {'nan'}, 'ns': {'nan'}, '-0': {'-0'}, '+0': {'+0'},
         'ps': {'ps', '1'}, '1': {'1'}, 'pb': {'pb', '1'}, '+inf': {'+inf'}}
    out = set()
    for c in x:
        out |= m[c]
    return frozenset(out)


def fcmp(op, x, y):
    """Three-valued comparison: returns subset of {True, False}."""
    out = set()
    for a in x:
        for b in y:
            if a == 'nan' or b == 'nan':
                out.add(op == 'Ne')
                continue
            ia, ib = ORDER[a], ORDER[b]
            if a in ZEROS and b in ZEROS:
                rel = {'eq'}
            elif ia < ib:
                rel = {'lt'}
            elif ia > ib:
                rel = {'gt'}
            elif a in ('nb', 'ns', 'ps', 'pb'):
                rel = {'lt', 'eq', 'gt'}
            else:
                rel = {'eq'}
            for r in rel:
                out.add({'Lt': r == 'lt', 'Le': r in ('lt', 'eq'), 'Gt': r == 'gt', 'Ge': r in ('gt', 'eq'),
                         'Eq': r == 'eq', 'Ne': r != 'eq'}[op])
    return frozenset(out)


def int_to_float(iv):
    _, lo, hi = iv
    out = set()
    lo_ = -INF if lo is None else lo
    hi_ = INF if hi is None else hi
    if lo_ <= 0 <= hi_:
        out.add('+0')
    if lo_ <= 1 <= hi_:
        out.add('1')
    if lo_ <= -1 <= hi_:
        out.add('-1')
    if hi_ > 1:
        out.add('pb')
    if lo_ < -1:
        out.add('nb')
    return frozenset(out)


# ---- integer intervals --------------------------------------------------------------------------

def i_join(a, b):
    lo = None if a[1] is None or b[1] is None else min(a[1], b[1])
    hi = None if a[2] is None or b[2] is None else max(a[2], b[2])
    return IVL(lo, hi)


def i_bin(op, a, b):
    alo, ahi, blo, bhi = a[1], a[2], b[1], b[2]

    def add(x, y):
        return None if x is None or y is None else x + y
    if op == 'Add':
        return IVL(add(alo, blo), add(ahi, bhi))
    if op == 'Sub':
        return IVL(None if alo is None or bhi is None else alo - bhi, None if ahi is None or blo is None else ahi - blo)
    if op == 'Mul':
        if None in (alo, ahi, blo, bhi):
            if alo is not None and blo is not None and alo >= 0 and blo >= 0:
                return IVL(alo * blo, None)
            return IVL(None, None)
        ps = [alo * blo, alo * bhi, ahi * blo, ahi * bhi]
        return IVL(min(ps), max(ps))
    if op == 'Div':
        if alo is not None and alo >= 0 and blo is not None and blo >= 1:
            return IVL(0 if bhi is None else alo // bhi, None if ahi is None else ahi // blo)
        return IVL(None, None)
    if op == 'imin':
        lo = None if alo is None or blo is None else min(alo, blo)
        hi = bhi if ahi is None else (ahi if bhi is None else min(ahi, bhi))
        return IVL(lo, hi)
    if op == 'imax':
        lo = blo if alo is None else (alo if blo is None else max(alo, blo))
        hi = None if ahi is None or bhi is None else max(ahi, bhi)
        return IVL(lo, hi)
    return IVL(None, None)


def i_contains(iv, k):
    return (iv[1] is None or iv[1] <= k) and (iv[2] is None or k <= iv[2])


# ---- abstract evaluation of symbolic expressions ------------------------------------------------

class AbsEval:
    """env: atom name -> abstract value.  `rel`: optional (a_name, b_name, relation in {'lt','eq','gt'}) — a
    relational fact between two finite float atoms used for a-b and comparisons of exactly that pair."""

    def __init__(self, env, rel=None, default=TOP):
        self.env = env
        self.rel = rel
        self.default = default
        self.trace = []

    def as_float(self, v):
        if v[0] == 'f':
            return v[1]
        if v[0] == 'i':
            return int_to_float(v)
        return FTOP

    def _pair(self, a, b):
        if self.rel and a[0] == 'sym' and b[0] == 'sym':
            x, y, r = self.rel
            if a[1] == x and b[1] == y:
                return r
            if a[1] == y and b[1] == x:
                return {'lt': 'gt', 'gt': 'lt', 'eq': 'eq'}[r]
        return None

    def ev(self, e):
        k = e[0]
        if k == 'num':
            q = e[1]
            if q.denominator == 1:
                # could be int or float; callers coerce
                return ('n', q)
            return F(class_of_number(q))
        if k == 'numf':
            return F({'inf': '+inf', '-inf': '-inf', 'nan': 'nan'}[e[1]])
        if k == 'bool':
            return B(e[1])
        if k == 'sym':
            return self.env.get(e[1], self.default)
        if k == 'un':
            a = self.ev(e[2])
            if e[1] == 'Neg':
                a = self.coerce_f(a)
                return ('f', fneg(a))
            if e[1] == 'Not':
                if a[0] == 'b':
                    return ('b', frozenset(not x for x in a[1]))
                return BTOP
        if k == 'bin':
            op = e[1]
            r = self._pair(e[2], e[3])
            if r and op == 'Sub':
                # finite a, b with a known order: a-b never rounds to zero unless equal
                res = {'lt': {'nb', '-1', 'ns', '-inf'}, 'eq': {'+0'}, 'gt': {'pb', '1', 'ps', '+inf'}}[r]
                return ('f', frozenset(res))
            a, b = self.ev(e[2]), self.ev(e[3])
            if self.is_int(a) and self.is_int(b):
                return i_bin(op, self.coerce_i(a), self.coerce_i(b))
            x, y = self.coerce_f(a), self.coerce_f(b)
            if op == 'Add':
                return ('f', fadd(x, y))
            if op == 'Sub':
                return ('f', fsub(x, y))
            if op == 'Mul':
                return ('f', fmul(x, y))
            if op == 'Div':
                return ('f', fdiv(x, y))
            return ('f', FTOP)
        if k == 'cmp':
            op = e[1]
            r = self._pair(e[2], e[3])
            if r:
                val = {'Lt': r == 'lt', 'Le': r in ('lt', 'eq'), 'Gt': r == 'gt', 'Ge': r in ('gt', 'eq'),
                       'Eq': r == 'eq', 'Ne': r != 'eq'}[op]
                return B(val)
            a, b = self.ev(e[2]), self.ev(e[3])
            if self.is_int(a) and self.is_int(b):
                return self.icmp(op, self.coerce_i(a), self.coerce_i(b))
            return ('b', fcmp(op, self.coerce_f(a), self.coerce_f(b)))
        if k == 'app':
            f, args = e[1], e[2]
            if f.startswith('as:'):
                a = self.ev(args[0])
                if 'f64' in f or 'f32' in f:
                    return ('f', self.coerce_f(a))
                if self.is_int(a):
                    return self.coerce_i(a)
                return IVL(None, None)
            if f == 'exp':
                return ('f', fexp(self.coerce_f(self.ev(args[0]))))
            if f == 'sqrt':
                return ('f', fsqrt(self.coerce_f(self.ev(args[0]))))
            if f in ('min', 'max'):
                return ('f', fmin(self.coerce_f(self.ev(args[0])), self.coerce_f(self.ev(args[1])), f == 'min'))
            if f == 'powf':
                return ('f', fpowf(self.coerce_f(self.ev(args[0])), self.coerce_f(self.ev(args[1]))))
            if f in ('imin', 'imax'):
                return i_bin(f, self.coerce_i(self.ev(args[0])), self.coerce_i(self.ev(args[1])))
            if f == 'idiv':
                return i_bin('Div', self.coerce_i(self.ev(args[0])), self.coerce_i(self.ev(args[1])))
            if f == 'abs':
                x = self.coerce_f(self.ev(args[0]))
                return ('f', frozenset(c if sign(c) > 0 or c == 'nan' else NEG[c] for c in x))
            if f in self.env:
                return self.env[f]
            key = 'app:' + f
            if key in self.env:
                return self.env[key]
            return self.default
        return self.default

    @staticmethod
    def is_int(v):
        return v[0] == 'i' or v[0] == 'n'

    @staticmethod
    def coerce_i(v):
        if v[0] == 'n':
            return IVL(int(v[1]), int(v[1]))
        if v[0] == 'i':
            return v
        return IVL(None, None)

    def coerce_f(self, v):
        if v[0] == 'n':
            return frozenset((class_of_number(v[1]),))
        if v[0] == 'f':
            return v[1]
        if v[0] == 'i':
            return int_to_float(v)
        return FTOP

    @staticmethod
    def icmp(op, a, b):
        out = set()
        alo, ahi, blo, bhi = a[1], a[2], b[1], b[2]
        ninf, pinf = -10 ** 40, 10 ** 40
        alo = ninf if alo is None else alo
        ahi = pinf if ahi is None else ahi
        blo = ninf if blo is None else blo
        bhi = pinf if bhi is None else bhi
        can_lt = alo < bhi
        can_gt = ahi > blo
        can_eq = not (ahi < blo or bhi < alo)
        for r, can in (('lt', can_lt), ('gt', can_gt), ('eq', can_eq)):
            if can:
                out.add({'Lt': r == 'lt', 'Le': r in ('lt', 'eq'), 'Gt': r == 'gt', 'Ge': r in ('gt', 'eq'),
                         'Eq': r == 'eq', 'Ne': r != 'eq'}[op])
        return ('b', frozenset(out))


def show(v):
    if v is None:
        return 'unknown'
    if v[0] == 'f':
        return '{' + ','.join(c for c in CLASSES if c in v[1]) + '}'
    if v[0] == 'i':
        return '[%s,%s]' % ('-inf' if v[1] is None else v[1], '+inf' if v[2] is None else v[2])
    if v[0] == 'b':
        return '{' + ','.join(str(x) for x in sorted(v[1])) + '}'
    if v[0] == 'n':
        return str(v[1])
    return 'T'
