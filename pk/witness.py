"""Engine E3: compile-fail witnesses (rustdoc compile_fail,E0xxx + compiling twins) against REPO's current tree."""
import hashlib
import os
import re
import shutil
import subprocess

from .harness import CACHE, VERIF, _env


def run_witnesses(repo):
    """Returns (results: {name: 'ok'|'FAILED'}, raw tail)."""
    tag = hashlib.sha256(os.path.abspath(repo).encode()).hexdigest()[:8]
    wd = os.path.join(CACHE, 'witness-' + tag)
    os.makedirs(os.path.join(wd, 'src'), exist_ok=True)
    shutil.copy(os.path.join(VERIF, 'witness', 'src', 'lib.rs'), os.path.join(wd, 'src', 'lib.rs'))
    with open(os.path.join(VERIF, 'witness', 'Cargo.toml.in')) as fh:
        toml = fh.read().replace('@REPO@', os.path.abspath(repo))
    with open(os.path.join(wd, 'Cargo.toml'), 'w') as fh:
        fh.write(toml)
    lock = os.path.join(repo, 'Cargo.lock')
    if os.path.exists(lock):
        # reuse the repository's resolution; cargo adds the witness package itself
        shutil.copy(lock, os.path.join(wd, 'Cargo.lock'))
    env = _env()
    env['CARGO_TARGET_DIR'] = os.path.join(CACHE, 'target-witness')
    env.pop('RUSTC_WORKSPACE_WRAPPER', None)
    env['RUSTFLAGS'] = '-Awarnings'
    p = subprocess.run(['cargo', '+nightly', 'test', '--doc', '--offline', '--', '--test-threads', '8'], cwd=wd, env=env,
                       stdout=subprocess.PIPE, stderr=subprocess.STDOUT)
    out = p.stdout.decode(errors='replace')
    res = {}
    for m in re.finditer(r'^test src/lib\.rs - (\S+) \(line (\d+)\)( - compile fail| - compile)? \.\.\. (\w+)', out, re.M):
        kind = 'compile_fail' if 'fail' in (m.group(3) or '') else 'twin'
        res['%s:%s:%s' % (m.group(1), kind, m.group(2))] = m.group(4)
    return res, out[-1500:], p.returncode
