"""CFG utilities over exported MIR: successors, dominators, post-dominators, loops,
reachability / must-pass-through."""


def term_succs(term, unwind=False):
    t = term['t']
    out = []
    if t == 'goto':
        out = [term['target']]
    elif t == 'switch':
        out = [a[1] for a in term['arms']] + [term['otherwise']]
    elif t in ('return', 'unreachable', 'resume', 'terminate', 'tailcall'):
        out = []
    elif t in ('drop', 'assert'):
        out = [term['target']]
        if unwind and term.get('unwind') is not None:
            out.append(term['unwind'])
    elif t == 'call':
        if term.get('target') is not None:
            out = [term['target']]
        if unwind and term.get('unwind') is not None:
            out.append(term['unwind'])
    else:
        out = []
    # dedupe, keep order
    seen = []
    for x in out:
        if x not in seen:
            seen.append(x)
    return seen


class CFG:
    def __init__(self, body, unwind=False):
        self.body = body
        self.n = len(body.blocks)
        self.unwind = unwind
        self.succ = [term_succs(bb['term'], unwind) for bb in body.blocks]
        self.pred = [[] for _ in range(self.n)]
        for i, ss in enumerate(self.succ):
            for s in ss:
                self.pred[s].append(i)
        self.reach = self._reachable([0])
        self._dom = None
        self._pdom = None
        self._loops = None

    # -- reachability -----------------------------------------------------------------
    def _reachable(self, starts, avoid=()):
        avoid = set(avoid)
        seen = set()
        stack = [s for s in starts if s not in avoid]
        while stack:
            x = stack.pop()
            if x in seen:
                continue
            seen.add(x)
            for s in self.succ[x]:
                if s not in avoid and s not in seen:
                    stack.append(s)
        return seen

    def reachable_from(self, starts, avoid=()):
        """Blocks reachable from `starts` (inclusive) without entering any block in `avoid`."""
        return self._reachable(list(starts), avoid)

    def reachable_after(self, b, avoid=()):
        """Blocks reachable from the successors of b (b itself only if on a cycle)."""
        return self._reachable(list(self.succ[b]), avoid)

    def exits(self):
        return [i for i in self.reach if self.body.blocks[i]['term']['t'] == 'return']

    # -- dominators -------------------------------------------------------------------
    def dominators(self):
        if self._dom is None:
            self._dom = self._compute_dom(0, self.succ, self.pred)
        return self._dom

    def _compute_dom(self, entry, succ, pred):
        nodes = sorted(self._reach_generic(entry, succ))
        allset = set(nodes)
        dom = {n: set(allset) for n in nodes}
        dom[entry] = {entry}
        changed = True
        # reverse post order
        order = self._rpo(entry, succ)
        while changed:
            changed = False
            for n in order:
                if n == entry:
                    continue
                ps = [p for p in pred[n] if p in dom]
                if not ps:
                    new = {n}
                else:
                    new = set(dom[ps[0]])
                    for p in ps[1:]:
                        new &= dom[p]
                    new.add(n)
                if new != dom[n]:
                    dom[n] = new
                    changed = True
        return dom

    @staticmethod
    def _reach_generic(entry, succ):
        seen = set()
        stack = [entry]
        while stack:
            x = stack.pop()
            if x in seen:
                continue
            seen.add(x)
            stack.extend(succ[x])
        return seen

    @staticmethod
    def _rpo(entry, succ):
        seen = set()
        order = []

        def dfs(x):
            stack = [(x, iter(succ[x]))]
            seen.add(x)
            while stack:
                node, it = stack[-1]
                adv = False
                for s in it:
                    if s not in seen:
                        seen.add(s)
                        stack.append((s, iter(succ[s])))
                        adv = True
                        break
                if not adv:
                    order.append(node)
                    stack.pop()
        dfs(entry)
        order.reverse()
        return order

    def dominates(self, a, b):
        """Block a dominates block b."""
        d = self.dominators()
        return b in d and a in d[b]

    def post_dominators(self):
        """Post-dominators w.r.t. a virtual exit joined from every `return` block."""
        if self._pdom is None:
            n = self.n
            VEXIT = n
            succ = [list(s) for s in self.pred] + [[]]
            pred = [list(s) for s in self.succ] + [[]]
            for e in self.exits():
                succ[VEXIT].append(e)
                pred[e] = pred[e] + [VEXIT]
            self._pdom = self._compute_dom(VEXIT, succ, pred)
        return self._pdom

    def post_dominates(self, a, b):
        pd = self.post_dominators()
        return b in pd and a in pd[b]

    # -- loops ------------------------------------------------------------------------
    def loops(self):
        """Natural loops: list of dict(header, latches, body(set)). Merged per header,
        sorted outermost first."""
        if self._loops is None:
            dom = self.dominators()
            by_header = {}
            for t in self.reach:
                for h in self.succ[t]:
                    if h in dom.get(t, ()):  # back edge t->h
                        body = {h}
                        stack = [t]
                        while stack:
                            x = stack.pop()
                            if x in body:
                                continue
                            body.add(x)
                            stack.extend(p for p in self.pred[x] if p in self.reach)
                        d = by_header.setdefault(h, {'header': h, 'latches': [], 'body': set()})
                        d['latches'].append(t)
                        d['body'] |= body
            ls = list(by_header.values())
            ls.sort(key=lambda l: -len(l['body']))
            for l in ls:
                l['exits'] = sorted({s for b in l['body'] for s in self.succ[b] if s not in l['body']})
                l['parent'] = None
            for l in ls:
                for m in ls:
                    if m is not l and l['header'] in m['body'] and len(m['body']) > len(l['body']):
                        if l['parent'] is None or len(m['body']) < len(l['parent']['body']):
                            l['parent'] = m
            self._loops = ls
        return self._loops

    def innermost_loop_of(self, b):
        best = None
        for l in self.loops():
            if b in l['body'] and (best is None or len(l['body']) < len(best['body'])):
                best = l
        return best

    def loop_depth(self, b):
        return sum(1 for l in self.loops() if b in l['body'])

    # -- path queries -----------------------------------------------------------------
    def all_paths_pass_through(self, start_blocks, through, until):
        """True iff every path starting at any of start_blocks reaches a block of `through`
        before it can reach any block of `until` (or leave the function by return).
        Paths that end in unreachable/diverging blocks are ignored."""
        through = set(through)
        until = set(until) | set(self.exits())
        r = self._reachable(list(start_blocks), avoid=through)
        bad = r & until
        return (len(bad) == 0), sorted(bad)

    def on_cycle(self, b):
        return b in self.reachable_after(b)
