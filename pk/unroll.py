"""Loops over a small constant table, unrolled.

    const STAGES: [Stage; 3] = [Stage::Quench, Stage::Anneal, Stage::Polish];
    STAGES.iter().fold(state.clone(), |s, stage| stage.configure(..).build().optimise_state(s))

is three calls in a row.  After the consumers are loops (pk/loopform.py) this pass finds `loop { match next(&mut it) .. }` whose
iterator is `<[T]>::iter()` of a constant array (a named constant or a promoted one) with at most MAX_ITEMS elements that are
payload-free enum variants or integers, and replaces the loop by one copy of its body per element, the item being a reference to
that element.  Locals that live entirely inside the loop body get a copy per iteration, so definition tracing keeps working;
loop-carried locals are shared.  Behaviour is unchanged (this is the execution the loop performs), so every analysis may use the
unrolled body: a `match` on the item folds to the arm of its element (pk/sroa.py constant variants + reference forwarding).
"""
import copy

from .cfg import CFG
from .facts import Body
from .mirutil import Tracer, call_matches

MAX_ITEMS = 8


def _dbg(msg):
    import os
    if os.environ.get('PK_UNROLL_DEBUG'):
        print('unroll:', msg)


def _const_items(facts, op):
    """Elements of the constant array an operand denotes: [('variant', adt, name, vi) | ('int', n, ty)] or None."""
    from .sym import SymEx
    raw = {'path': 'pk::const_eval', 'blocks': [{'stmts': [{'s': 'assign', 'place': {'l': 0, 'p': [], 'ty': op.get('ty', '?')},
                                                        'rv': {'r': 'use', 'a': op}, 'span': {'file': '', 'line': 0, 'col': 0}}],
                                                 'term': {'t': 'return'}, 'cleanup': False}],
           'locals': [{'ty': op.get('ty', '?')}], 'arg_count': 0, 'span': {'file': '', 'line': 0, 'col': 0}}
    try:
        sx = SymEx(facts)
        outs = sx.run(Body(raw, 'lib'), [])
        if len(outs) != 1 or sx.aborted:
            return None
        v = sx.deep(outs[0].st, outs[0].ret)
        items = sx.as_seq(outs[0].st, v)
    except Exception:      # noqa: BLE001
        return None
    if items is None or not (0 < len(items) <= MAX_ITEMS):
        return None
    out = []
    for it in items:
        if isinstance(it, tuple) and it[0] == 'struct' and it[2] is not None and not it[3]:
            out.append(('variant', it[1], it[2][0], it[2][1]))
        elif isinstance(it, tuple) and it[0] == 'num' and it[1].denominator == 1:
            out.append(('int', int(it[1])))
        else:
            return None
    return out


def _source_const(tr, op, depth=0):
    """The constant operand an iterator is built from: iter(&CONST) / into_iter(&CONST) through reborrows and unsizing."""
    o = tr.origin(op)
    for _ in range(8):
        if o['o'] == 'call' and call_matches(o['term'], '<impl [T]>::iter', 'IntoIterator>::into_iter', 'IntoIterator::into_iter') \
                and o['term']['args']:
            o = tr.origin(o['term']['args'][0])
            continue
        if o['o'] == 'rvalue' and o['rv'].get('r') == 'cast' and 'l' in o['rv']['a']:
            o = tr.origin(o['rv']['a'])
            continue
        break
    if o['o'] == 'const' and [e for e in o.get('p', []) if e not in ('ref', 'deref')] == [] and 'uneval' in o['c'] and \
            str(o['c'].get('ty', '')).lstrip('&').startswith('['):
        return o['c']
    return None


def unroll_once(facts, body):
    cfg = CFG(body)
    tr = Tracer(body)
    blocks = body.blocks
    for lp in sorted(cfg.loops(), key=lambda l: len(l['body'])):
        H = lp['header']
        t = blocks[H]['term']
        if t['t'] != 'call' or not call_matches(t, 'Iterator::next', 'Iterator>::next') or t.get('target') is None:
            continue
        S = t['target']
        st = blocks[S]['term']
        if S not in lp['body'] or st['t'] != 'switch' or len(cfg.pred[S]) != 1:
            continue
        exits = [tg for v, tg in st['arms'] if v == '0']
        if len(exits) != 1 or exits[0] in lp['body'] or st['otherwise'] not in lp['body']:
            continue
        EXIT, B = exits[0], st['otherwise']
        n_l = t['dest']['l']
        if t['dest']['p'] or len(cfg.pred[B]) != 1:
            continue
        # the item: first statement of B reads (n as Some).0
        b0 = blocks[B]['stmts'][0] if blocks[B]['stmts'] else None
        if not (b0 and b0['s'] == 'assign' and not b0['place']['p'] and b0['rv']['r'] == 'use' and b0['rv']['a'].get('l') == n_l
                and len(b0['rv']['a'].get('p', [])) == 2):
            continue
        x_l = b0['place']['l']
        # n is not read anywhere else, the iterator is only advanced here
        def mentions(x, l):
            if isinstance(x, dict):
                if x.get('l') == l and 'p' in x:
                    return True
                return any(mentions(v, l) for v in x.values())
            if isinstance(x, list):
                return any(mentions(v, l) for v in x)
            return False
        other_n = 0
        for bi, bb in enumerate(blocks):
            for si, s in enumerate(bb['stmts']):
                if (bi, si) == (B, 0):
                    continue
                if bi == S and s['s'] == 'assign' and s['rv']['r'] == 'discr' and s['rv']['place'].get('l') == n_l:
                    continue
                if mentions(s, n_l):
                    other_n += 1
            if bi != H and mentions(bb['term'], n_l):
                other_n += 1
        if other_n:
            continue
        if not t['args'] or 'l' not in t['args'][0]:
            continue
        it_l = None
        for s0 in blocks[H]['stmts']:
            if s0['s'] == 'assign' and s0['place']['l'] == t['args'][0]['l'] and not s0['place']['p'] and \
                    s0['rv']['r'] == 'ref' and not s0['rv']['place']['p']:
                it_l = s0['rv']['place']['l']
        if it_l is None:
            continue
        # the iterator local is only used to be advanced by this loop
        uses = 0
        for bi, bb in enumerate(blocks):
            if bb.get('cleanup'):
                continue
            for s in bb['stmts']:
                if s['s'] == 'assign' and s['place']['l'] == it_l and not s['place']['p']:
                    continue
                if mentions(s, it_l) and bi != H:
                    uses += 1
            if bi != H and bb['term']['t'] != 'drop' and mentions(bb['term'], it_l):
                uses += 1
        if uses:
            continue
        c = _source_const(tr, {'k': 'copy', 'l': it_l, 'p': []})
        if c is None:
            continue
        items = _const_items(facts, c)
        if items is None:
            continue
        # the iterator is built from a reference to the array (`CONST.iter()`, `(&CONST).into_iter()`): items are references
        cty = str(c.get('ty', ''))
        if not cty.startswith('&'):
            continue
        inner = cty.lstrip('&').strip()
        if inner.startswith("'") and ' ' in inner:
            inner = inner.split(' ', 1)[1]
        if not (inner.startswith('[') and ';' in inner):
            continue
        elem_ty = inner[1:inner.rindex(';')].strip()
        x_ty = '&' + elem_ty
        # --- rewrite -----------------------------------------------------------------------------------------------
        raw = dict(body.raw)
        raw['blocks'] = copy.deepcopy(body.raw['blocks'])
        raw['locals'] = copy.deepcopy(body.raw['locals'])
        raw['debug'] = copy.deepcopy(body.raw.get('debug') or [])
        nbk, nloc = raw['blocks'], raw['locals']
        region = sorted(lp['body'] - {H, S})
        # locals private to the loop body: every definition and every use inside `region`
        inside, outside = set(), set()

        def collect(x, acc):
            if isinstance(x, dict):
                if 'l' in x and 'p' in x:
                    acc.add(x['l'])
                    for e in x['p']:
                        if isinstance(e, dict) and 'idx' in e:
                            acc.add(e['idx'])
                for v in x.values():
                    collect(v, acc)
            elif isinstance(x, list):
                for v in x:
                    collect(v, acc)
        for bi, bb in enumerate(blocks):
            if bb.get('cleanup'):
                continue        # (unwind paths keep naming the original locals; analyses do not follow them)
            acc = inside if bi in region else outside
            collect(bb['stmts'], acc)
            collect(bb['term'], acc)
        private = {l for l in inside if l not in outside and l > body.arg_count and l != x_l}
        if x_l not in outside:
            private.add(x_l)
        span = t.get('span')
        # loop-carried locals with one definition per iteration get one version per iteration (v_0 = the local itself before the
        # loop, v_k after iteration k), so that the unrolled code stays single-assignment for definition tracing
        reg = set(region)
        succ_in = {bi: [x for x in cfg.succ[bi] if x in reg] for bi in region}

        def reach_in(start):
            seen, stack = set(), list(succ_in.get(start, []))
            while stack:
                y = stack.pop()
                if y in seen:
                    continue
                seen.add(y)
                stack.extend(succ_in.get(y, []))
            return seen
        from_H = cfg.reachable_from([H])
        def diverges(bi):
            t9 = blocks[bi]['term']
            return t9['t'] == 'unreachable' or (t9['t'] == 'call' and t9.get('target') is None and not blocks[bi]['stmts'])
        other_exits = [sx_ for bi in region for sx_ in cfg.succ[bi] if sx_ not in lp['body'] and not blocks[sx_].get('cleanup')
                       and not diverges(sx_)]
        carried = {}
        for L in sorted((inside & outside) - {x_l, n_l, it_l}):
            if L <= body.arg_count:
                continue
            dsites, bad = [], False
            for bi in region:
                bb = blocks[bi]
                for si, s0 in enumerate(bb['stmts']):
                    if s0['s'] != 'assign':
                        if mentions(s0, L):
                            bad = True
                        continue
                    if s0['place']['l'] == L:
                        if s0['place']['p']:
                            bad = True
                        else:
                            dsites.append((bi, si))
                    if s0['rv']['r'] in ('ref', 'rawptr') and s0['rv']['place']['l'] == L:
                        bad = True
                t0 = bb['term']
                if t0['t'] == 'call' and t0.get('dest') and t0['dest']['l'] == L:
                    if t0['dest']['p']:
                        bad = True
                    else:
                        dsites.append((bi, 'term'))
                if t0['t'] == 'drop' and t0['place']['l'] == L:
                    bad = True
            if bad or len(dsites) != 1:
                _dbg('L%d bad=%s dsites=%s' % (L, bad, dsites))
                continue
            Db, Di = dsites[0]
            if not all(cfg.dominates(Db, lt) for lt in lp['latches']):
                _dbg('L%d def does not dominate latches' % L)
                continue
            after_blocks = {bi for bi in region if bi != Db and cfg.dominates(Db, bi)}
            reach_D = reach_in(Db)
            amb = False
            for bi in region:
                if bi == Db or bi in after_blocks:
                    continue
                if (mentions(blocks[bi]['stmts'], L) or mentions(blocks[bi]['term'], L)) and bi in reach_D:
                    amb = True
            if amb:
                _dbg('L%d ambiguous' % L)
                continue
            post_uses, ok_out = [], True
            for bi, bb in enumerate(blocks):
                if bi in lp['body'] or bb.get('cleanup') or bi not in cfg.reach:
                    continue
                if not (mentions(bb['stmts'], L) or mentions(bb['term'], L)):
                    continue
                if bi not in from_H or cfg.dominates(bi, H):
                    continue            # before the loop (each time it is entered)
                if not cfg.dominates(EXIT, bi):
                    ok_out = False
                    break
                for s0 in bb['stmts']:
                    if s0['s'] == 'assign' and s0['place']['l'] == L:
                        ok_out = False
                t0 = bb['term']
                if t0['t'] == 'call' and t0.get('dest') and t0['dest']['l'] == L:
                    ok_out = False
                post_uses.append(bi)
            if not ok_out or (post_uses and other_exits):
                _dbg('L%d ok_out=%s post=%s other_exits=%s' % (L, ok_out, post_uses, other_exits))
                continue
            carried[L] = (Db, Di, after_blocks, post_uses)
        versions = {L: [L] for L in carried}
        for L in sorted(carried):
            for k in range(len(items)):
                nloc.append(dict(nloc[L]))
                versions[L].append(len(nloc) - 1)
        entries = []
        for k, item in enumerate(items):
            ren = {}
            for l in sorted(private):
                nloc.append(dict(nloc[l]))
                ren[l] = len(nloc) - 1
            e_l = len(nloc)
            nloc.append({'ty': elem_ty, 'name': None, 'mut': False, 'unrolled': True})
            ren_b = dict(ren)
            ren_a = dict(ren)
            for L in carried:
                ren_b[L] = versions[L][k]
                ren_a[L] = versions[L][k + 1]

            def rn(x, mp):
                if isinstance(x, dict):
                    y = {kk: rn(v, mp) for kk, v in x.items()}
                    if 'l' in x and 'p' in x and x['l'] in mp:
                        y['l'] = mp[x['l']]
                    if 'idx' in x and x['idx'] in mp and 'p' not in x:
                        y['idx'] = mp[x['idx']]
                    return y
                if isinstance(x, list):
                    return [rn(v, mp) for v in x]
                return x

            def mapping_at(bi, pos):
                # pos: statement index, or 'term'
                mp = dict(ren)
                for L, (Db, Di, after_blocks, _pu) in carried.items():
                    if bi in after_blocks:
                        aft = True
                    elif bi == Db:
                        aft = (Di != 'term') and (pos == 'term' or pos > Di)
                    else:
                        aft = False
                    mp[L] = versions[L][k + 1] if aft else versions[L][k]
                return mp
            cp = {}
            for bi in region:
                ob = blocks[bi]
                nb_ = {kk: copy.deepcopy(v) for kk, v in ob.items() if kk not in ('stmts', 'term')}
                nst = []
                for si, s0 in enumerate(ob['stmts']):
                    mp = mapping_at(bi, si)
                    s1 = rn(copy.deepcopy(s0), mp)
                    if s0['s'] == 'assign' and not s0['place']['p'] and s0['place']['l'] in carried and \
                            carried[s0['place']['l']][:2] == (bi, si):
                        s1['place']['l'] = versions[s0['place']['l']][k + 1]
                    nst.append(s1)
                nb_['stmts'] = nst
                mp = mapping_at(bi, 'term')
                t1 = rn(copy.deepcopy(ob['term']), mp)
                t0 = ob['term']
                if t0['t'] == 'call' and t0.get('dest') and not t0['dest']['p'] and t0['dest']['l'] in carried and \
                        carried[t0['dest']['l']][:2] == (bi, 'term'):
                    t1['dest']['l'] = versions[t0['dest']['l']][k + 1]
                nb_['term'] = t1
                nb_['unrolled'] = k
                nbk.append(nb_)
                cp[bi] = len(nbk) - 1
            entries.append((cp, e_l, ren))
        # after the loop the carried locals are their last version
        for L, (_Db, _Di, _ab, post_uses) in carried.items():
            for bi in post_uses:
                mp = {L: versions[L][len(items)]}
                nbk[bi]['stmts'] = [rn(s0, mp) for s0 in nbk[bi]['stmts']]
                nbk[bi]['term'] = rn(nbk[bi]['term'], mp)
        for k, (cp, e_l, ren) in enumerate(entries):
            nxt = entries[k + 1][0][B] if k + 1 < len(entries) else EXIT
            for bi, nbi in cp.items():
                t2 = nbk[nbi]['term']
                for key in ('target', 'otherwise', 'unwind'):
                    if isinstance(t2.get(key), int):
                        if t2[key] == H:
                            t2[key] = nxt
                        elif t2[key] in cp:
                            t2[key] = cp[t2[key]]
                if 'arms' in t2:
                    t2['arms'] = [[v, (nxt if tg == H else cp.get(tg, tg))] for v, tg in t2['arms']]
            item = items[k]
            if item[0] == 'variant':
                rv = {'r': 'aggr', 'agg': 'adt', 'adt': item[1], 'variant': item[2], 'vi': item[3], 'fields': [], 'ops': []}
            else:
                rv = {'r': 'use', 'a': {'k': 'const', 'ty': elem_ty, 'int': str(item[1])}}
            eb = nbk[cp[B]]
            xl2 = ren.get(x_l, x_l)
            eb['stmts'][0:1] = [
                {'s': 'assign', 'place': {'l': e_l, 'p': [], 'ty': elem_ty}, 'rv': rv, 'span': span, 'syn': True},
                {'s': 'assign', 'place': {'l': xl2, 'p': [], 'ty': x_ty},
                 'rv': {'r': 'ref', 'mut': False, 'bk': 'Shared', 'place': {'l': e_l, 'p': [], 'ty': elem_ty}}, 'span': span, 'syn': True}]
        first = entries[0][0][B]
        for bi, bb in enumerate(nbk):
            if bi in lp['body'] or bb.get('unrolled') is not None:
                continue
            t2 = bb['term']
            for key in ('target', 'otherwise'):
                if t2.get(key) == H:
                    t2[key] = first
            if 'arms' in t2:
                t2['arms'] = [[v, (first if tg == H else tg)] for v, tg in t2['arms']]
        # the rolled loop is no longer reachable: blank it, so that its statements do not count as definitions
        for bi in lp['body']:
            nbk[bi] = {'stmts': [], 'term': {'t': 'unreachable', 'span': span}, 'cleanup': False, 'unrolled_from': True}
        nb = Body(raw, body.crate_kind)
        for a in ('key_in_facts', 'inlined', 'original', 'fused', 'yields'):
            if hasattr(body, a):
                setattr(nb, a, getattr(body, a))
        nb.unrolled = getattr(body, 'unrolled', 0) + 1
        return nb
    return None


def unroll_const_loops(facts, body, rounds=4):
    cur = body
    for _ in range(rounds):
        nxt = unroll_once(facts, cur)
        if nxt is None:
            break
        cur = nxt
    return cur
