"""`vec![a, b, ..]` as one constructor call.

On the toolchain of this image `vec![a, b]` expands to

    _box = Box::<[T; N]>::new_uninit();   ...elements...;   _p = transmute(copy _box.0..);   assert aligned / non-null;
    (*_p).value.value = [a, b];           _b2 = move _box;  _vec = box_assume_init_into_vec_unsafe(move _b2)

which mentions raw pointers and two library-internal functions.  At load time (every body, before any analysis) the
expansion is rewritten to

    _arr = [a, b];                        _vec = pk::vec_of(move _arr)

so every analysis sees a Vec literal as what it is: a sequence of its element values (SymEx models `pk::vec_of` as a finite
sequence, lineage treats it as an identity adaptor over the array).  The rewrite is keyed on the macro backtrace of the
spans the driver exports (`exp = macro:vec`), never on user code; if the expansion has another shape (a different toolchain)
nothing is rewritten and the body is analysed as it stands.
"""

VEC_OF = {'k': 'const', 'ty': 'fn', 'fn': 'pk::vec_of', 'fn_canon': 'pk::vec_of', 'fn_local': False, 'gargs': [], 'synthetic': True}


def _from_vec_macro(span):
    return isinstance(span, dict) and str(span.get('exp', '')).startswith('macro:vec')


_PRIM_DEFAULT = {'u8': 'int', 'u16': 'int', 'u32': 'int', 'u64': 'int', 'u128': 'int', 'usize': 'int', 'i8': 'int', 'i16': 'int',
                 'i32': 'int', 'i64': 'int', 'i128': 'int', 'isize': 'int', 'f64': 'f64', 'f32': 'f32', 'bool': 'bool'}


def _prim_defaults(raw):
    """`<u32 as Default>::default()` and friends are the constant zero / false: the call becomes an assignment."""
    n = 0
    for bb in raw['blocks']:
        t = bb['term']
        if t['t'] != 'call' or t.get('args') or t.get('target') is None:
            continue
        fc = t['func']
        if not (fc.get('fn') or '').endswith('Default::default') or not (fc.get('trait') or '').endswith('Default'):
            continue
        kind = _PRIM_DEFAULT.get((t.get('dest') or {}).get('ty'))
        if kind is None or t['dest']['p']:
            continue
        ty = t['dest']['ty']
        if kind == 'int':
            c = {'k': 'const', 'ty': ty, 'int': '0', 'syn': 'default'}
        elif kind == 'bool':
            c = {'k': 'const', 'ty': ty, 'bool': False, 'syn': 'default'}
        else:
            c = {'k': 'const', 'ty': ty, 'bits': '0', 'f': '0.0', 'fw': 64 if kind == 'f64' else 32, 'syn': 'default'}
        bb['stmts'].append({'s': 'assign', 'place': t['dest'], 'rv': {'r': 'use', 'a': c}, 'span': t.get('span'), 'syn': True})
        bb['term'] = {'t': 'goto', 'target': t['target'], 'span': t.get('span'), 'syn': True}
        n += 1
    return n


_FLOAT_OPS = {'Add': 'Add', 'Sub': 'Sub', 'Mul': 'Mul', 'Div': 'Div', 'Rem': 'Rem'}


def _float_ref_ops(raw):
    """`a * b` where a or b is a `&f64` compiles to a call of `<&f64 as Mul<f64>>::mul` (likewise Add/Sub/Div/Rem/Neg, f32):
    the same IEEE operation as the MIR binop on the pointees, which is what it becomes.  Integer operators are left alone
    (their trait impls carry the overflow check)."""
    n = 0
    for bb in raw['blocks']:
        t = bb['term']
        if t['t'] != 'call' or t.get('target') is None or t['dest']['p']:
            continue
        fc = t['func']
        tr = fc.get('trait') or ''
        if not tr.startswith('std::ops::') or fc.get('resolved_local'):
            continue
        opn = tr[len('std::ops::'):]
        tys = [a.get('ty', '') for a in t['args']]
        flt = lambda ty: ty.replace('&', '').replace('mut ', '').strip() in ('f64', 'f32')      # noqa: E731
        if t['dest'].get('ty') not in ('f64', 'f32') or not tys or not all(flt(ty) for ty in tys):
            continue

        def val(a):
            if a.get('k') == 'const' or not a.get('ty', '').startswith('&'):
                return a
            return {'k': 'copy', 'l': a['l'], 'p': list(a['p']) + ['deref'], 'ty': a['ty'].replace('&', '').replace('mut ', '').strip()}
        if opn in _FLOAT_OPS and len(t['args']) == 2:
            rv = {'r': 'binop', 'op': _FLOAT_OPS[opn], 'a': val(t['args'][0]), 'b': val(t['args'][1]), 'syn': 'float-ref-op'}
        elif opn == 'Neg' and len(t['args']) == 1:
            rv = {'r': 'unop', 'op': 'Neg', 'a': val(t['args'][0]), 'syn': 'float-ref-op'}
        else:
            continue
        bb['stmts'].append({'s': 'assign', 'place': t['dest'], 'rv': rv, 'span': t.get('span'), 'syn': True})
        bb['term'] = {'t': 'goto', 'target': t['target'], 'span': t.get('span'), 'syn': True}
        n += 1
    return n


def _mem_replace(raw):
    """`dest = mem::replace(r, v)` is `dest = move *r; *r = move v` (its definition); `mem::swap(a, b)` likewise through a
    temporary.  Written out, the place behind `r` is accessed directly and can be split by SROA."""
    n = 0
    for bb in raw['blocks']:
        t = bb['term']
        if t['t'] != 'call' or bb.get('cleanup') or t.get('target') is None:
            continue
        fn = t['func'].get('fn') or ''
        if fn.endswith(('mem::replace', 'mem::replace::<T>')) and len(t['args']) == 2 and 'l' in t['args'][0] and \
                not t['args'][0]['p'] and str(t['args'][0].get('ty', '')).startswith('&mut '):
            r = t['args'][0]
            ty = str(r['ty'])[5:]
            span = t.get('span')
            bb['stmts'].append({'s': 'assign', 'place': dict(t['dest']), 'rv': {'r': 'use', 'a': {'k': 'move', 'l': r['l'], 'p': ['deref'], 'ty': ty}},
                                'span': span, 'syn': True})
            bb['stmts'].append({'s': 'assign', 'place': {'l': r['l'], 'p': ['deref'], 'ty': ty}, 'rv': {'r': 'use', 'a': t['args'][1]},
                                'span': span, 'syn': True})
            bb['term'] = {'t': 'goto', 'target': t['target'], 'span': span, 'syn': 'mem::replace'}
            n += 1
    return n


def rewrite(raw):
    """Rewrite every array-literal `vec!` expansion in this raw body (in place).  Returns the number rewritten."""
    blocks = raw['blocks']
    n = _prim_defaults(raw) + _float_ref_ops(raw) + _mem_replace(raw)
    for bi, bb in enumerate(blocks):
        t = bb['term']
        if t['t'] != 'call' or not (t['func'].get('fn') or '').endswith('box_assume_init_into_vec_unsafe') or bb.get('cleanup'):
            continue
        # the store of the array through the raw pointer: `(*_p).value.value = <array>` in the same block, macro span
        store = None
        for si, s in enumerate(bb['stmts']):
            if s['s'] == 'assign' and s['place']['p'] and s['place']['p'][0] == 'deref' and _from_vec_macro(s.get('span')) and \
                    str(s['place'].get('ty', '')).startswith('['):
                store = si
        if store is None:
            continue
        s = bb['stmts'][store]
        arr_ty = s['place']['ty']
        raw['locals'].append({'ty': arr_ty, 'name': None, 'mut': True, 'syn': True})
        arr = len(raw['locals']) - 1
        ptr = s['place']['l']
        box_locals = {a['l'] for a in t['args'] if 'l' in a}
        bb['stmts'][store] = {'s': 'assign', 'place': {'l': arr, 'p': [], 'ty': arr_ty}, 'rv': s['rv'], 'span': s.get('span'), 'syn': True}
        # `_b2 = move _box` feeding the call goes away with it
        keep = []
        for s2 in bb['stmts']:
            if s2['s'] == 'assign' and s2['place']['l'] in box_locals and not s2['place']['p'] and s2['rv']['r'] == 'use' and \
                    'l' in s2['rv']['a']:
                box_locals.add(s2['rv']['a']['l'])
                continue
            keep.append(s2)
        bb['stmts'] = keep
        t['func'] = dict(VEC_OF, gargs=list(t['func'].get('gargs') or []))
        t['args'] = [{'k': 'move', 'l': arr, 'p': [], 'ty': arr_ty}]
        t['vec_macro'] = True
        # the pointer arithmetic and its alignment / null asserts, and the allocation call
        for bj, b2 in enumerate(blocks):
            if not b2.get('cleanup'):
                b2['stmts'] = [s2 for s2 in b2['stmts'] if not (
                    s2['s'] == 'assign' and not s2.get('syn') and _from_vec_macro(s2.get('span')) and
                    _mentions(s2, box_locals | {ptr}))]
            t2 = b2['term']
            if t2['t'] == 'assert' and _from_vec_macro(t2.get('span')) and \
                    str(t2.get('kind', '')).startswith(('MisalignedPointerDereference', 'NullPointerDereference')):
                b2['term'] = {'t': 'goto', 'target': t2['target'], 'span': t2.get('span'), 'syn': True}
            elif t2['t'] == 'call' and (t2['func'].get('fn') or '').endswith('Box::<T>::new_uninit') and \
                    t2.get('dest', {}).get('l') in box_locals and t2.get('target') is not None:
                b2['term'] = {'t': 'goto', 'target': t2['target'], 'span': t2.get('span'), 'syn': True}
        n += 1
    # pointer temporaries derived from the box (`_q = _p as *const ()` ...) that are now dangling
    if n:
        _drop_dangling(raw)
    return n


def _mentions(s, locs):
    def walk(x):
        if isinstance(x, dict):
            if 'l' in x and x['l'] in locs:
                return True
            return any(walk(v) for v in x.values())
        if isinstance(x, list):
            return any(walk(v) for v in x)
        return False
    return walk(s['rv']) or s['place']['l'] in locs


def _drop_dangling(raw):
    """Remove macro:vec assignments whose operands have no definition left (iterated)."""
    blocks = raw['blocks']
    nargs = raw['arg_count']
    for _ in range(6):
        defined = set(range(0, nargs + 1))
        for b2 in blocks:
            for s in b2['stmts']:
                if s['s'] == 'assign':
                    defined.add(s['place']['l'])
            t = b2['term']
            if t['t'] == 'call' and 'dest' in t and t['dest']:
                defined.add(t['dest']['l'])
        changed = False
        for b2 in blocks:
            if b2.get('cleanup'):
                continue
            keep = []
            for s in b2['stmts']:
                if s['s'] == 'assign' and _from_vec_macro(s.get('span')) and not s.get('syn'):
                    used = set()
                    _collect(s['rv'], used)
                    if used - defined:
                        changed = True
                        continue
                keep.append(s)
            b2['stmts'] = keep
        if not changed:
            break


def _collect(x, out):
    if isinstance(x, dict):
        if 'l' in x and isinstance(x['l'], int):
            out.add(x['l'])
        for v in x.values():
            _collect(v, out)
    elif isinstance(x, list):
        for v in x:
            _collect(v, out)
