"""Provided-method normal form.

The reference tree implements every trait method per type (`impl Basis for StandardBasis { fn set_sampled .. }`).  Moving such a
method into the trait as a provided (default) method leaves the program unchanged but the per-type body disappears: the call
resolves to the generic `Trait::method` whose `self` is `Self`.  For every workspace trait with a provided method and every
workspace impl of that trait that does not override it, this pass synthesises the per-type body `<T as Trait>::method` — a copy
of the provided body in which `Self` is T and the trait calls on `self` are resolved to T's own methods — and points the calls
that resolve to the provided method with receiver type T at it.  The provided body stays (it is what a `dyn`/generic caller
reaches).  Nothing is invented: the synthesised body is the monomorphisation rustc performs."""
import copy
import re

from .facts import Body


def _adt_of(ty):
    ty = ty.replace('packing::', '').lstrip('&').replace('mut ', '').strip()
    return re.sub(r'<.*$', '', ty)


def monomorphise_provided(facts):
    made = []
    provided = []
    traits = {}
    for im in facts.impls:
        if im.get('trait') and im.get('self_adt'):
            traits.setdefault(facts.norm(im['trait']), []).append(im)
    for k, p in list(facts.bodies.items()):
        if p.is_closure or p.raw.get('def_kind') != 'AssocFn' or p.impl_self_adt or p.impl_trait:
            continue
        tpath, _, name = p.path.rpartition('::')
        tpath = facts.norm(tpath)
        if tpath in traits and p.arg_count >= 1 and re.search(r'\bSelf\b', p.local_ty(1)):
            provided.append((k, p, tpath, name))
    for k, p, tpath, name in provided:
        for im in traits[tpath]:
            if any(fn.rsplit('::', 1)[-1] == name for fn in im.get('fns') or []):
                continue        # overridden
            key = '%s::%s' % (im['path'], name)
            if key in facts.bodies:
                continue
            raw = copy.deepcopy(p.raw)
            raw['path'] = key
            raw['canon'] = None
            raw['impl_trait'] = im['trait']
            raw['impl_trait_canon'] = im.get('trait_canon')
            raw['impl_self_adt'] = im['self_adt']
            raw['synthesised_from'] = p.path
            sty = im['self_ty']
            for l in raw['locals']:
                l['ty'] = re.sub(r'\bSelf\b', lambda m: sty, l['ty'])
            for bb in raw['blocks']:
                t = bb['term']
                if t['t'] != 'call':
                    continue
                fc = t['func']
                if fc.get('self_ty') == 'Self' and facts.norm(fc.get('trait') or '') == tpath:
                    m = (fc.get('fn') or '').rsplit('::', 1)[-1]
                    fc['self_ty'] = sty
                    fc['resolved'] = '%s::%s' % (im['path'], m)
                    fc.pop('resolved_canon', None)
                    fc.pop('fn_canon', None)
                for a in t['args']:
                    if isinstance(a, dict) and 'ty' in a:
                        a['ty'] = re.sub(r'\bSelf\b', lambda m: sty, a['ty'])
            b = Body(raw, p.crate_kind)
            b.key_in_facts = key
            facts.bodies[key] = b
            made.append(key)
            im.setdefault('fns', []).append(key)
    if not made:
        return made
    by_adt = {}
    for k, p, tpath, name in provided:
        for im in traits[tpath]:
            key = '%s::%s' % (im['path'], name)
            if key in made:
                by_adt[(p.path, im['self_adt'])] = key
    for b in facts.bodies.values():
        for _bi, t in b.calls():
            fc = t['func']
            tgt = facts.norm(fc.get('resolved') or '')
            if not tgt or not fc.get('self_ty'):
                continue
            key = by_adt.get((tgt, _adt_of(fc['self_ty'])))
            if key:
                fc['resolved'] = key
                fc.pop('resolved_canon', None)
                fc.pop('fn_canon', None)
    return made
