"""Integer intervals of collection-size arithmetic (used by C20.R1 to discharge overflow checks such as the ones in
`Vec::with_capacity(3 + 3 * self.sites.len())` or `total_shapes() * images_per_shape`).

The facts this analysis rests on are language guarantees, not properties of this program:

  * an allocation is at most isize::MAX bytes, so `Vec<T>::len() <= isize::MAX / size_of::<T>()` (size_of from the layout
    the driver exports; unknown sizes count as 1 byte);
  * distinct live allocations do not overlap, so the SUM over the items of a collection of the lengths of Vec<T>s OWNED by
    those items (reached from the item through struct fields only) is again at most isize::MAX / size_of::<T>();
  * integer arithmetic on exact values: the interval of a + b, a - b, a * b from the intervals of a and b.

interval(body, tr, op) returns (lo, hi) — exact Python integers bounding the mathematical value of the operand on every
execution — or None when it cannot be bounded (anything derived from a parameter, a field that is not a length, a call the
analysis cannot see through).  None is always the safe answer.
"""
from .cfg import CFG
from .mirutil import Tracer, call_matches, callee_name, const_value, field_path

MAXB = 2 ** 63 - 1
RANGES = {'usize': (0, 2 ** 64 - 1), 'u64': (0, 2 ** 64 - 1), 'u32': (0, 2 ** 32 - 1), 'u16': (0, 2 ** 16 - 1), 'u8': (0, 255),
          'u128': (0, 2 ** 128 - 1), 'isize': (-2 ** 63, 2 ** 63 - 1), 'i64': (-2 ** 63, 2 ** 63 - 1), 'i32': (-2 ** 31, 2 ** 31 - 1),
          'i16': (-2 ** 15, 2 ** 15 - 1), 'i8': (-128, 127), 'i128': (-2 ** 127, 2 ** 127 - 1)}
PRIM_SIZE = {'f64': 8, 'f32': 4, 'u64': 8, 'i64': 8, 'usize': 8, 'isize': 8, 'u32': 4, 'i32': 4, 'u16': 2, 'i16': 2, 'u8': 1, 'i8': 1,
             'bool': 1, 'char': 4, 'u128': 16, 'i128': 16}
SELF = ('self',)


class Sizes:
    def __init__(self, facts):
        self.f = facts
        self._ret = {}
        self._tr = {}

    # ------------------------------------------------------------------------------------------ type sizes
    def size_of(self, ty):
        ty = (ty or '').strip()
        if ty in PRIM_SIZE:
            return PRIM_SIZE[ty]
        if ty.startswith('&'):
            return 8
        if ty.startswith('(') and ty.endswith(')'):
            parts = _split_top(ty[1:-1])
            if parts and all(parts):
                return max(1, sum(self.size_of(p) for p in parts))      # at least the sum of the parts
            return 1
        name = self.f.norm(ty).split('<')[0]
        a = self.f.adts.get(name)
        if a and isinstance(a.get('size'), int) and a['size'] > 0:
            return a['size']
        if name.isidentifier() and name[:1].isupper() and len(name) <= 2 and a is None:
            # a generic parameter of a state (`S: Shape + ..`): one of the workspace's shape types (what the library and the CLI
            # can build); the smallest of them bounds the length of a Vec<S>
            return self._min_shape_size()
        if name in ('std::vec::Vec', 'std::string::String'):
            return 24
        return 1

    def _min_shape_size(self):
        if not hasattr(self, '_mss'):
            sizes = []
            for b in self.f.bodies.values():
                if (b.impl_trait or '').endswith('traits::Shape') and b.impl_self_adt:
                    a = self.f.adts.get(self.f.norm(b.impl_self_adt))
                    if a and isinstance(a.get('size'), int) and a['size'] > 0:
                        sizes.append(a['size'])
            self._mss = min(sizes) if sizes else 1
        return self._mss

    @staticmethod
    def elem_ty(coll_ty):
        t = (coll_ty or '').strip()
        while t.startswith('&'):
            t = t[1:].lstrip()
            if t.startswith('mut '):
                t = t[4:]
        if t.startswith('std::vec::Vec<') and t.endswith('>'):
            parts = _split_top(t[len('std::vec::Vec<'):-1])
            return parts[0] if parts else None
        if t.startswith('[') and t.endswith(']'):
            inner = t[1:-1]
            return inner.rsplit(';', 1)[0].strip() if ';' in inner else inner
        return None

    def tracer(self, body):
        k = id(body)
        if k not in self._tr:
            self._tr[k] = (body, Tracer(body), CFG(body))
        return self._tr[k][1], self._tr[k][2]

    # ------------------------------------------------------------------------------------------ intervals
    def interval(self, body, op, stack=frozenset(), depth=0):
        if depth > 40:
            return None
        tr, cfg = self.tracer(body)
        if op.get('k') == 'const':
            v = const_value(op)
            return (v, v) if isinstance(v, int) and not isinstance(v, bool) else None
        o = tr.origin(op)
        if o['o'] == 'const':
            v = const_value(o['c'])
            return (v, v) if isinstance(v, int) and not isinstance(v, bool) else None
        p = o.get('p', [])
        if o['o'] == 'rvalue':
            rv = o['rv']
            if rv['r'] == 'binop':
                opn = rv['op']
                if opn.endswith('WithOverflow'):
                    if not (len(p) == 1 and isinstance(p[0], dict) and p[0].get('f') == 0):
                        return None
                    opn = opn[:-len('WithOverflow')]
                elif p:
                    return None
                opn = opn.replace('Unchecked', '')
                a = self.interval(body, rv['a'], stack, depth + 1)
                b = self.interval(body, rv['b'], stack, depth + 1)
                return _arith(opn, a, b, rv['a'], rv['b'])
            if rv['r'] == 'cast' and not p and str(rv.get('kind', '')).startswith('IntToInt'):
                a = self.interval(body, rv['a'], stack, depth + 1)
                rng = RANGES.get(rv.get('to'))
                if a is None or a is SELF or rng is None or (isinstance(a, tuple) and a and a[0] == 'self+'):
                    return None
                return a if rng[0] <= a[0] and a[1] <= rng[1] else None
            if rv['r'] == 'unop' and rv.get('op') == 'PtrMetadata' and not p:
                et = self.elem_ty(rv['a'].get('ty'))
                return (0, MAXB // self.size_of(et)) if et else None
            return None
        if o['o'] == 'call' and not p:
            t = o['term']
            if call_matches(t, 'Vec::<T, A>::len', '<impl [T]>::len') and t['args']:
                et = self.elem_ty(t['args'][0].get('ty'))
                if et is None:
                    g = t['func'].get('gargs') or []
                    et = g[0] if g else None
                return (0, MAXB // self.size_of(et)) if et else (0, MAXB)
            if call_matches(t, 'String::len', 'str::len', '<impl str>::len'):
                return (0, MAXB)
            if call_matches(t, 'cmp::Ord::min', 'cmp::Ord::max', 'Ord::min', 'Ord::max') and len(t['args']) == 2:
                a = self.interval(body, t['args'][0], stack, depth + 1)
                b = self.interval(body, t['args'][1], stack, depth + 1)
                if _plain(a) and _plain(b):
                    pick = min if (callee_name(t) or '').endswith('min') else max
                    return (pick(a[0], b[0]), pick(a[1], b[1]))
                return None
            fn = callee_name(t) or ''
            if fn.endswith('::pow') and 'core::num::' in fn and len(t['args']) == 2 and t['dest'].get('ty') in RANGES:
                a = self.interval(body, t['args'][0], stack, depth + 1)
                k = self.interval(body, t['args'][1], stack, depth + 1)
                if _plain(a) and _plain(k) and k[0] == k[1] and 0 <= k[0] <= 64:
                    e = k[0]
                    c = [a[0] ** e, a[1] ** e] + ([0] if a[0] < 0 < a[1] and e > 0 else [])
                    return (min(c), max(c))
                return None
            cb = self.f.body_of_fnconst(t['func'])
            if cb is not None and not cb.is_closure and cb.local_ty(0) in RANGES:
                return self.return_interval(cb)
            return None
        if o['o'] == 'local' and not p:
            return self._multi_def(body, o['l'], stack, depth)
        return None

    def return_interval(self, cb):
        """Interval of the value a workspace function returns, for arbitrary arguments (None if it depends on them)."""
        k = getattr(cb, 'key_in_facts', cb.path)
        if k in self._ret:
            return self._ret[k]
        self._ret[k] = None            # recursion guard
        nb = self.f.nest_form(cb, yields=False)
        r = self.interval(nb, {'k': 'copy', 'l': 0, 'p': [], 'ty': nb.local_ty(0)})
        self._ret[k] = r if _plain(r) else None
        return self._ret[k]

    def _multi_def(self, body, l, stack, depth):
        tr, cfg = self.tracer(body)
        if l in stack:
            return SELF
        if l <= body.arg_count:
            return None
        defs = [d for d in tr.defs.of(l) if d[0] in cfg.reach]
        if not defs or tr.defs.pwrites.get(l) or len(defs) > 12:
            return None
        base, incs, base_bbs = [], [], []
        n_self = 0
        for (dbi, si, kind, payload) in defs:
            if kind != 'assign':
                return None
            # evaluate the defining rvalue as if it were a fresh temporary
            iv = self._rvalue_interval(body, payload, stack | {l}, depth + 1)
            if iv is None:
                return None
            if iv is SELF:
                n_self += 1
                continue                   # x = x
            if isinstance(iv, tuple) and iv and iv[0] == 'self+':
                incs.append((dbi, iv[1], iv[2]))
            else:
                base.append(iv)
                base_bbs.append(dbi)
        if not base:
            # a temporary on the way back to an accumulator further out (`r = if c { x } else { x + 1 }; x = r`): every
            # definition is the outer accumulator, possibly plus a non-negative term
            if stack and (incs or n_self) and all(t[1][0] >= 0 for t in incs):
                if not incs:
                    return SELF
                return ('self+', (0 if n_self else min(t[1][0] for t in incs), max(t[1][1] for t in incs)), None)
            return None
        lo, hi = min(b[0] for b in base), max(b[1] for b in base)
        if not incs:
            return (lo, hi)
        # an accumulator: x = x + term inside a loop
        total = 0
        for dbi, term_iv, term_op in incs:
            if term_iv[0] < 0:
                return None
            s = self._sum_bound(body, dbi, term_iv, term_op, base_bbs)
            if s is None:
                return None
            total += s
        return (lo, hi + total)

    def _rvalue_interval(self, body, rv, stack, depth):
        if rv['r'] == 'use':
            a = rv['a']
            if a.get('k') == 'const' or not a.get('p'):
                return self.interval(body, a, stack, depth)
            return self.interval(body, a, stack, depth)
        if rv['r'] == 'binop' and not rv['op'].endswith('WithOverflow'):
            a = self.interval(body, rv['a'], stack, depth)
            b = self.interval(body, rv['b'], stack, depth)
            return _arith(rv['op'].replace('Unchecked', ''), a, b, rv['a'], rv['b'])
        if rv['r'] == 'cast' and str(rv.get('kind', '')).startswith('IntToInt'):
            return self.interval(body, rv['a'], stack, depth)
        return None

    def _sum_bound(self, body, def_bb, term_iv, term_op, base_bbs=()):
        """Upper bound of the sum of `term` over all executions of the step in block def_bb between two (re)initialisations
        of the accumulator: the loops around the step that do not also contain every initialisation multiply."""
        from .loops import for_loops
        tr, cfg = self.tracer(body)
        loops = [d for d in for_loops(body, cfg, tr) if def_bb in d['loop']['body']]
        if not loops:
            return None
        loops.sort(key=lambda d: len(d['loop']['body']))          # innermost first
        counted = []
        for d in loops:
            if base_bbs and all(bb in d['loop']['body'] for bb in base_bbs):
                break           # re-initialised on every iteration of this loop: the sum restarts
            counted.append(d)
        if not counted:
            return term_iv[1]
        if len(counted) == 1 and term_op is not None and self._visits_once(counted[0]):
            et = self._owned_len(body, term_op, counted[0])
            if et is not None:
                return MAXB // self.size_of(et)
        total = term_iv[1]
        for d in counted:
            n = self._iterations(d)
            if n is None:
                return None
            total *= n
        return total

    _ONCE = ('iter', 'into_iter', 'iter_mut', 'enumerate', 'deref', 'by_ref', 'as_slice', 'rev', 'skip', 'take', 'filter', 'step_by',
             'skip_while', 'take_while', 'peekable', 'fuse', 'as_ref', 'borrow')

    def _visits_once(self, d):
        return bool(d['chain_terms']) and all(nm in self._ONCE for nm, _ct, _cbb in d['chain_terms'])

    def _iterations(self, d):
        """Upper bound of the number of iterations of for-loop d."""
        if not [c for c in d['chain_terms'] if c[0] not in ('into_iter', 'by_ref')]:
            # a loop over an integer range lo..hi: at most max(T) iterations (an exclusive range of T cannot have more)
            so = d.get('src') or {}
            if so.get('o') == 'rvalue' and so['rv'].get('r') == 'aggr' and str(so['rv'].get('adt', '')).endswith('ops::Range') and \
                    so['rv'].get('ops'):
                rng = RANGES.get(so['rv']['ops'][0].get('ty'))
                return rng[1] if rng is not None else None
            return None
        if not self._visits_once(d):
            return None
        for nm, ct, cbb in d['chain_terms']:
            if nm in ('iter', 'into_iter', 'iter_mut') and ct['args']:
                et = self.elem_ty(ct['args'][0].get('ty'))
                return MAXB // self.size_of(et) if et is not None else None
        return None

    def _owned_len(self, body, term_op, d, depth=0):
        """Element type T if term = len of a Vec<T> owned by the item of loop d (reached through struct fields only)."""
        tr, cfg = self.tracer(body)
        o = tr.origin(term_op)
        if o['o'] != 'call' or o.get('p'):
            return None
        t = o['term']
        if call_matches(t, 'Vec::<T, A>::len') and t['args']:
            ao = tr.origin(t['args'][0])
            if ao['o'] == 'call' and (callee_name(ao['term']) or '').endswith('::next') and ao.get('bb') == d['header'] and \
                    _owned_path(ao.get('p', [])):
                return self.elem_ty(t['args'][0].get('ty'))
            return None
        cb = self.f.body_of_fnconst(t['func'])
        if cb is None or cb.is_closure or depth > 2 or len(t['args']) != 1:
            return None
        # the argument must be the loop item itself
        ao = tr.origin(t['args'][0])
        if not (ao['o'] == 'call' and (callee_name(ao['term']) or '').endswith('::next') and ao.get('bb') == d['header'] and
                _owned_path(ao.get('p', []))):
            return None
        # and the callee must return the length of a Vec reached from its receiver through fields only
        ctr = Tracer(cb)
        ro = ctr.origin({'k': 'copy', 'l': 0, 'p': []})
        if ro['o'] == 'call' and not ro.get('p') and call_matches(ro['term'], 'Vec::<T, A>::len') and ro['term']['args']:
            so = ctr.origin(ro['term']['args'][0])
            if so['o'] == 'arg' and so['l'] == 1 and _owned_path(so.get('p', [])):
                return self.elem_ty(ro['term']['args'][0].get('ty'))
        return None


def _owned_path(p):
    """Projections that stay inside the item: derefs of the item reference / reborrows and struct fields whose type is not a
    reference, pointer or shared owner."""
    for e in p:
        if e in ('deref', 'ref'):
            continue
        if isinstance(e, dict):
            if 'downcast' in e:
                continue
            if 'f' in e:
                ty = str(e.get('ty', ''))
                if ty.startswith(('&', '*', 'std::rc::', 'std::sync::Arc', 'std::boxed::Box<dyn')):
                    return False
                continue
        return False
    return True


def _plain(iv):
    return isinstance(iv, tuple) and len(iv) == 2 and isinstance(iv[0], int) and isinstance(iv[1], int)


def _arith(opn, a, b, a_op=None, b_op=None):
    if a is None or b is None:
        return None
    if a is SELF or b is SELF:
        other = b if a is SELF else a
        if opn == 'Add' and _plain(other):
            return ('self+', other, b_op if a is SELF else a_op)      # x + term: an accumulator step
        return None
    if not (_plain(a) and _plain(b)):
        return None
    if opn == 'Add':
        return (a[0] + b[0], a[1] + b[1])
    if opn == 'Sub':
        return (a[0] - b[1], a[1] - b[0])
    if opn == 'Mul':
        c = [a[0] * b[0], a[0] * b[1], a[1] * b[0], a[1] * b[1]]
        return (min(c), max(c))
    return None


def _split_top(s):
    out, depth, cur = [], 0, ''
    for ch in s:
        if ch in '<([':
            depth += 1
        elif ch in '>)]':
            depth -= 1
        if ch == ',' and depth == 0:
            out.append(cur.strip())
            cur = ''
        else:
            cur += ch
    if cur.strip():
        out.append(cur.strip())
    return out
