"""Anchors located by meaning (resolved callees, dataflow roles), never by line or name.

OptimiserAnchors: the stepping function (contains the resolved call Basis::set_sampled), the
proposal's State::score call, the decision call (receives that score), its None/Some edges,
the undo call, the inner/outer natural loops, the schedule variable (kt), score_current and
the step multiplier.
"""
from .cfg import CFG
from .mirutil import Defs, Tracer, call_matches, callee_name, field_path


class AnchorLost(Exception):
    pass


def find_calls(body, *suffixes):
    return [(bi, t) for bi, t in body.calls() if call_matches(t, *suffixes)]


def is_trait_call(term, trait_suffix, method):
    f = term.get('func', {})
    fn = (f.get('fn') or '').replace('packing::', '')
    res = (f.get('resolved') or '').replace('packing::', '')
    tr = (f.get('trait') or '').replace('packing::', '')
    if fn.endswith('::' + method) and tr.endswith(trait_suffix):
        return True
    if res.endswith('::' + method) and (' as %s>' % trait_suffix) in res.replace('traits::', ''):
        return True
    if res.endswith('::' + method) and trait_suffix in res:
        return True
    return False


def handle_of(body, tracer, op, depth=0):
    """Resolve an operand that denotes an element of a container to
    (container root local, index origin dict).  Follows Option::expect/unwrap, slice::get/get_mut,
    Deref/DerefMut, Index/IndexMut calls and MIR index projections."""
    o = tracer.origin(op)
    for _ in range(12):
        idxs = [e for e in o.get('p', []) if isinstance(e, dict) and 'idx' in e]
        if idxs and o['o'] in ('call', 'rvalue'):
            # `(*container)[i]` where the container value comes from a call (deref_mut of a Vec, a slice parameter of a helper)
            idx = tracer.origin({'k': 'copy', 'l': idxs[0]['idx'], 'p': []})
            cont = None
            if o['o'] == 'call' and call_matches(o['term'], 'Deref>::deref', 'DerefMut>::deref_mut', '::as_slice', '::as_mut_slice',
                                                 'Deref::deref', 'DerefMut::deref_mut') and o['term']['args']:
                cont = container_root(body, tracer, o['term']['args'][0])
            elif o.get('l') is not None:
                cont = o['l']
            return cont, idx
        if o['o'] == 'call':
            t = o['term']
            if call_matches(t, 'Option::<T>::expect', 'Option::<T>::unwrap', 'Option::<T>::unwrap_unchecked'):
                o = tracer.origin(t['args'][0])
                continue
            if call_matches(t, '<impl [T]>::get', '<impl [T]>::get_mut', 'Index::index', 'IndexMut::index_mut',
                            '::index', '::index_mut', '<impl [T]>::get_unchecked', '<impl [T]>::get_unchecked_mut'):
                cont = container_root(body, tracer, t['args'][0])
                idx = tracer.origin(t['args'][1])
                return cont, idx
            return None, None
        if o['o'] in ('local', 'arg'):
            for i, e in enumerate(o['p']):
                if isinstance(e, dict) and 'idx' in e:
                    idx = tracer.origin({'k': 'copy', 'l': e['idx'], 'p': []})
                    return o['l'], idx
            return None, None
        return None, None
    return None, None


def container_root(body, tracer, op):
    o = tracer.origin(op)
    for _ in range(8):
        if o['o'] == 'call' and call_matches(o['term'], 'Deref>::deref', 'DerefMut>::deref_mut', '::as_slice',
                                             '::as_mut_slice', 'Deref::deref', 'DerefMut::deref_mut'):
            o = tracer.origin(o['term']['args'][0])
            continue
        proj = [e for e in o.get('p', []) if isinstance(e, dict)]
        payload_only = len(proj) == 2 and 'downcast' in proj[0] and proj[1].get('f') == 0
        if o['o'] == 'call' and call_matches(o['term'], 'Try>::branch', 'Try::branch') and payload_only and \
                proj[0]['downcast'] == 'Continue':
            # `x?`: the Continue payload is the Ok / Some payload of x
            r = tracer.origin(o['term']['args'][0])
            inner = _success_payload(body, tracer, r)
            if inner is not None:
                o = inner
                continue
            return o['l']       # the container lives in the (single) result of this `?`
        if o['o'] == 'local' and payload_only and proj[0]['downcast'] in ('Ok', 'Some'):
            inner = _success_payload(body, tracer, dict(o, p=[]))
            if inner is not None:
                o = inner
                continue
        break
    if o['o'] in ('local', 'arg'):
        return o['l']
    if o['o'] in ('call', 'rvalue') and 'l' in o and not [e for e in o['p'] if isinstance(e, dict)]:
        return o['l']      # the local that holds the container (defined once)
    return None


def _success_payload(body, tracer, r):
    """r: origin of a Result/Option value held in a local with several definitions (a spliced helper's return slot): the
    origin of the payload of its only Ok(..)/Some(..) definition, or None."""
    if r['o'] != 'local' or [e for e in r.get('p', []) if isinstance(e, dict)]:
        return None
    succ = [d for d in tracer.defs.of(r['l']) if d[2] == 'assign' and d[3].get('r') == 'aggr' and d[3].get('variant') in ('Ok', 'Some')
            and d[3].get('ops')]
    if len(succ) != 1 or 'l' not in succ[0][3]['ops'][0]:
        return None
    return tracer.origin(succ[0][3]['ops'][0])


class OptimiserAnchors:
    def __init__(self, facts):
        self.f = facts
        cands = []
        for b in list(facts.bodies.values()):
            if b.crate_kind != 'lib' or b.is_closure:
                continue
            if b.impl_trait and facts.norm(b.impl_trait).endswith('Basis'):
                continue   # the Basis impl itself
            has = lambda x: any(is_trait_call(t, 'Basis', 'set_sampled') for _, t in x.calls())     # noqa: E731
            if not has(b) and not any(has(c) for c in facts.closures_of(b)):
                continue
            # nest form: the proposal may sit in a closure handed to fold/for_each, or behind adaptors (pk/loopform.py)
            nb = facts.nest_form(b, yields=False)
            cs = [(bi, t) for bi, t in nb.calls() if is_trait_call(t, 'Basis', 'set_sampled')]
            if cs:
                cands.append((nb, cs))
        if len(cands) > 1:
            # a helper the reference tree does not have (`optimise_state_with_summary`, kept as a function of its own because
            # it is public) that was spliced into another candidate is that candidate's body seen twice
            spliced = set()
            for nb, _cs in cands:
                spliced |= {facts.norm(x) for x in (getattr(nb, 'inlined', None) or [])}
            keep = [c for c in cands if facts.norm(c[0].path) not in spliced]
            if len(keep) == 1:
                cands = keep
        if len(cands) != 1:
            raise AnchorLost('expected exactly one function calling Basis::set_sampled (the stepping function), '
                             'found %d: %s' % (len(cands), [c[0].path for c in cands]))
        self.body, self.set_sampled_calls = cands[0]
        b = self.body
        self.cfg = CFG(b)
        self.defs = Defs(b)
        self.tr = Tracer(b, self.defs)
        # State::score calls
        self.score_calls = [(bi, t) for bi, t in b.calls() if is_trait_call(t, 'State', 'score')]
        # decision: a call receiving the result of a State::score call — as an argument, or as a field of a struct literal
        # argument (`accept(Proposal { new: state.score(), old, kt }, rng)`) — whose result says accepted-with-score or rejected:
        # Option<f64>, or a two-variant enum with one payload variant (`enum Verdict { Accept(f64), Reject }`)
        dec = []
        for bi, t in b.calls():
            for ai, a in enumerate(t['args']):
                o = self.tr.origin(a)
                if o['o'] == 'call' and not o['p'] and is_trait_call(o['term'], 'State', 'score'):
                    dec.append((bi, t, ai, o['bb']))
                elif o['o'] == 'rvalue' and not o['p'] and o['rv'].get('r') == 'aggr' and o['rv'].get('agg') == 'adt':
                    for op in o['rv']['ops']:
                        if 'l' not in op:
                            continue
                        o2 = self.tr.origin(op)
                        if o2['o'] == 'call' and not o2['p'] and is_trait_call(o2['term'], 'State', 'score'):
                            dec.append((bi, t, ai, o2['bb']))
        dec = [d for d in dec if self._outcome_type(d[1]['dest']['ty']) is not None and facts.body_of_fnconst(d[1]['func']) is not None
               or d[1]['dest']['ty'].startswith('std::option::Option<f64>')]
        if len(dec) != 1:
            raise AnchorLost('expected exactly one decision call (accepted-score / rejected result, fed by State::score) in %s, '
                             'found %d' % (b.path, len(dec)))
        self.decision_bb, self.decision, self.decision_new_arg, self.proposal_score_bb = dec[0]
        # semantic outcome of each variant of the result type: 1 accepted (carries the score), 0 rejected
        self.outcome = self._outcome_type(self.decision['dest']['ty'])
        # tests of the decision's result: discriminant switches and is_none()/is_some() on (copies of) the value
        self.decision_tests = [bi for bi in range(len(b.blocks)) if self.decision_test(bi) is not None]
        self.decision_switch_bb = self.decision_tests[0] if self.decision_tests else None
        if not self.decision_tests:
            raise AnchorLost('the decision result is never branched on (no discriminant switch / is_none / is_some on it)')
        # loops
        self.inner = self.cfg.innermost_loop_of(self.decision_bb)
        if self.inner is None:
            raise AnchorLost('the decision call is not inside a loop')
        self.outer = self.inner['parent']
        # undo calls
        self.reset_calls = [(bi, t) for bi, t in b.calls() if is_trait_call(t, 'Basis', 'reset_value')]
        # roles of the decision's arguments by the callee's parameter names
        self.decision_body = facts.body_of_fnconst(self.decision['func'])
        self.dec_args = {}
        entries = []          # (role name candidate, call-site operand) in parameter order, struct parameters flattened
        if self.decision_body is not None:
            for i in range(1, self.decision_body.arg_count + 1):
                nm = self.decision_body.local_name(i)
                arg = self.decision['args'][i - 1]
                if nm:
                    self.dec_args[nm] = arg
                # a struct literal argument contributes its fields as roles (Proposal { new, old, kt }); so does a reference to
                # a plain struct built before the call (`Metropolis { kt }.accept(..)`)
                ao = self.tr.origin(arg)
                if ao['o'] == 'rvalue' and not ao['p'] and ao['rv'].get('r') == 'ref' and not ao['rv']['place']['p']:
                    ao = self.tr.origin({'k': 'copy', 'l': ao['rv']['place']['l'], 'p': []})
                if ao['o'] == 'rvalue' and ao['p'] in ([], ['ref']) and ao['rv'].get('r') == 'aggr' and ao['rv'].get('agg') == 'adt' and \
                        ao['rv'].get('fields') and not ao['rv'].get('adt', '').endswith('MCOptimiser'):
                    for fn_, op in zip(ao['rv']['fields'], ao['rv']['ops']):
                        self.dec_args.setdefault(fn_, op)
                        entries.append((fn_, op))
                elif nm:
                    entries.append((nm, arg))
        self.roles = self._discover_roles(entries)
        for canon, actual in self.roles.items():
            if canon != actual and actual in self.dec_args:
                self.dec_args[canon] = self.dec_args[actual]
        if self.decision_body is not None:
            self.decision_body.role_rename = {a: c for c, a in self.roles.items() if a != c}

    def _discover_roles(self, entries):
        """{'new' | 'old' | 'kt': actual parameter / field name} of the decision by what flows into it at the call site: `new`
        is fed by State::score, `old` by the local that receives the accepted score, `kt` is the remaining float.  Names that
        cannot be determined this way keep their spelling (a parameter literally called new / old / kt)."""
        roles = {}
        names = [e[0] for e in entries]
        for canon in ('new', 'old', 'kt'):
            if canon in names:
                roles[canon] = canon
        if len(roles) == 3:
            return roles
        b = self.body
        new = [nm for nm, op in entries if 'l' in op and self.tr.origin(op)['o'] == 'call' and not self.tr.origin(op)['p'] and
               is_trait_call(self.tr.origin(op)['term'], 'State', 'score')]
        # locals that receive the payload of the decision's result
        kept = set()
        for bb in b.blocks:
            for st in bb['stmts']:
                if st['s'] == 'assign' and st['rv']['r'] == 'use' and 'l' in st['rv']['a'] and not st['place']['p']:
                    o = self.tr.origin(st['rv']['a'])
                    if o['o'] == 'call' and o['term'] is self.decision and o['p']:
                        kept.add(st['place']['l'])
        # ... directly or through the temporaries of a `match` (`tmp = payload; score_current = move tmp`)
        for _ in range(6):
            grew = False
            for bb in b.blocks:
                for st in bb['stmts']:
                    if st['s'] == 'assign' and st['rv']['r'] == 'use' and 'l' in st['rv']['a'] and not st['place']['p'] and \
                            not st['rv']['a']['p'] and st['rv']['a']['l'] in kept and st['place']['l'] not in kept:
                        kept.add(st['place']['l'])
                        grew = True
            if not grew:
                break
        floats = [(nm, op) for nm, op in entries if op.get('ty') == 'f64' and nm not in new]
        old = [nm for nm, op in floats if 'l' in op and self.arg_local(op) in kept]
        if len(new) == 1 and len(old) == 1:
            rest = [nm for nm, op in floats if nm != old[0]]
            if len(rest) == 1:
                return {'new': new[0], 'old': old[0], 'kt': rest[0]}
        return roles

    def _outcome_type(self, ty):
        """{'name': type, 'sem': {variant index: 1 accepted / 0 rejected}, 'accept': (variant name, index)} for a result type that
        says accepted-with-score or rejected; None for any other type."""
        ty = self.f.norm(ty or '')
        if ty.startswith('std::option::Option<f64>'):
            return {'name': 'std::option::Option', 'sem': {0: 0, 1: 1}, 'accept': ('Some', 1), 'reject': ('None', 0)}
        a = self.f.adts.get(ty.split('<')[0])
        if not a or len(a.get('variants') or []) != 2:
            return None
        per = {v: 0 for v in a['variants']}
        for fl in a.get('fields') or []:
            per[fl['variant']] = per.get(fl['variant'], 0) + 1
        withp = [v for v in a['variants'] if per.get(v) == 1]
        without = [v for v in a['variants'] if per.get(v) == 0]
        if len(withp) != 1 or len(without) != 1:
            return None
        ai, ri = a['variants'].index(withp[0]), a['variants'].index(without[0])
        return {'name': ty.split('<')[0], 'sem': {ai: 1, ri: 0}, 'accept': (withp[0], ai), 'reject': (without[0], ri)}

    # -- the decision's outcome along paths ---------------------------------------------------------------------
    def _is_decision_value(self, pl_or_op, allow_ref=True):
        o = self.tr.origin(pl_or_op)
        if o['o'] == 'call' and o.get('bb') == self.decision_bb and o['p'] in ([], ['ref'] if allow_ref else []):
            return True
        return False

    def decision_test(self, bi):
        """If block bi ends in a switch that tests the decision's Option result, return {switch value: variant(0 None/1 Some)}
        plus key 'otherwise' -> set of variants; else None."""
        t = self.body.blocks[bi]['term']
        if t['t'] != 'switch':
            return None
        d = self.tr.origin(t['discr'])
        if d['o'] == 'rvalue' and d['rv']['r'] == 'discr' and not d['p']:
            if self._is_decision_value(dict(d['rv']['place'], k='copy'), allow_ref=False) or \
                    self._is_decision_value({'k': 'copy', 'l': d['rv']['place']['l'], 'p': [e for e in d['rv']['place']['p'] if e != 'deref']}):
                m = {}
                sem = self.outcome['sem']
                for val, tgt in t['arms']:
                    if val.lstrip('-').isdigit() and int(val) in sem:
                        m.setdefault(tgt, set()).add(sem[int(val)])
                vals = {int(v) for v, _ in t['arms'] if v.lstrip('-').isdigit()}
                rest = {sem[v] for v in sem if v not in vals}
                if rest:
                    m.setdefault(t['otherwise'], set()).update(rest)
                return m
        if d['o'] == 'call' and not d['p'] and call_matches(d['term'], 'PartialEq::eq', 'PartialEq::ne', 'PartialEq>::eq', 'PartialEq>::ne') \
                and len(d['term']['args']) == 2:
            # `verdict == Verdict::Reject` (derived PartialEq): comparing with the payload-free variant decides the variant
            a0, a1 = d['term']['args']
            other = a1 if self._is_decision_value(a0) else (a0 if self._is_decision_value(a1) else None)
            if other is not None:
                oo = self.tr.origin(other)
                cmp_vi = None
                if oo['o'] == 'rvalue' and oo['rv'].get('r') == 'aggr' and oo['rv'].get('agg') == 'adt' and not oo['rv'].get('ops') \
                        and [e for e in oo['p'] if e != 'ref'] == []:
                    cmp_vi = oo['rv'].get('vi')
                elif oo['o'] == 'const' and [e for e in oo.get('p', []) if e not in ('ref', 'deref')] == []:
                    from .mirutil import const_variant
                    cv = const_variant(self.f, oo['c'])
                    if cv is not None and cv[0].split('<')[0] == self.outcome['name']:
                        cmp_vi = cv[1]
                if cmp_vi in self.outcome['sem'] and self.outcome['sem'][cmp_vi] == 0:
                    is_v = self.outcome['sem'][cmp_vi]
                    eq = (callee_name(d['term']) or '').endswith('eq')
                    true_sem = is_v if eq else 1 - is_v
                    m = {}
                    zero = [tgt for val, tgt in t['arms'] if val == '0']
                    if not zero:
                        return None
                    m.setdefault(zero[0], set()).add(1 - true_sem)
                    m.setdefault(t['otherwise'], set()).add(true_sem)
                    return m
        if d['o'] == 'call' and not d['p'] and call_matches(d['term'], 'Option::<T>::is_none', 'Option::<T>::is_some'):
            if d['term']['args'] and self._is_decision_value(d['term']['args'][0]):
                none_is_true = call_matches(d['term'], 'Option::<T>::is_none')
                m = {}
                for val, tgt in t['arms']:
                    if val == '0':      # false
                        m.setdefault(tgt, set()).add(0 if not none_is_true else 1)
                vals = {v for v, _ in t['arms']}
                if '0' in vals:
                    m.setdefault(t['otherwise'], set()).add(0 if none_is_true else 1)
                else:
                    return None
                return m
        return None

    def succs_under(self, bi, variant):
        """CFG successors of bi on executions where the decision returned `variant` (0 None, 1 Some)."""
        m = self.decision_test(bi)
        if m is None:
            return self.cfg.succ[bi]
        return [tgt for tgt, vs in m.items() if variant in vs]

    def reach_under(self, variant, starts, avoid=()):
        """Blocks reachable from `starts` on executions where the decision returned `variant`, without entering `avoid`.
        Besides the tests of the decision value itself, values DERIVED from it are followed: a local that receives a different
        enum variant (or bool constant) on different paths (`MoveOutcome::from(decision)`, `let accepted = d.is_some()`)
        selects, at a later switch on it, only the edges its possible values allow."""
        avoid = set(avoid)
        b, tr = self.body, self.tr
        env0 = {}
        state = {}
        work = []
        for x in starts:
            if x not in avoid:
                state[x] = dict(env0)
                work.append(x)
        seen = set()
        guard = 0
        while work:
            guard += 1
            if guard > 20000:
                break
            x = work.pop()
            seen.add(x)
            e = dict(state[x])
            for st in b.blocks[x]['stmts']:
                if st['s'] != 'assign' or st['place']['p']:
                    continue
                l, rv = st['place']['l'], st['rv']
                if rv['r'] == 'aggr' and rv.get('agg') == 'adt' and rv.get('vi') is not None:
                    e[l] = frozenset([rv['vi']])
                elif rv['r'] == 'use' and rv['a'].get('k') == 'const' and 'bool' in rv['a']:
                    e[l] = frozenset([1 if rv['a']['bool'] else 0])
                elif rv['r'] == 'use' and 'l' in rv['a'] and not rv['a']['p'] and rv['a']['l'] in e:
                    e[l] = e[rv['a']['l']]
                elif rv['r'] == 'discr' and not rv['place']['p'] and rv['place']['l'] in e:
                    e[l] = e[rv['place']['l']]
                else:
                    e.pop(l, None)
            t = b.blocks[x]['term']
            if t['t'] == 'call' and not t['dest']['p']:
                e.pop(t['dest']['l'], None)
            succs = self.succs_under(x, variant)
            allowed = None
            if t['t'] == 'switch' and self.decision_test(x) is None and 'l' in t['discr'] and not t['discr']['p'] and t['discr']['l'] in e:
                vals = e[t['discr']['l']]
                allowed = {}
                arms = dict((v, y) for v, y in t['arms'])
                for v in vals:
                    tgt = arms.get(str(v), t['otherwise'])
                    allowed.setdefault(tgt, set()).add(v)
            for y in succs:
                if y in avoid:
                    continue
                if allowed is not None and y not in allowed:
                    continue
                e2 = dict(e)
                if allowed is not None:
                    e2[t['discr']['l']] = frozenset(allowed[y])
                if y not in state:
                    state[y] = e2
                    work.append(y)
                else:
                    # join: keep only facts that agree, union of value sets
                    old = state[y]
                    new = {}
                    for k in set(old) & set(e2):
                        new[k] = old[k] | e2[k]
                    if new != old:
                        state[y] = new
                        work.append(y)
        return seen

    def after_decision(self):
        t = self.decision['target']
        return [t] if t is not None else []

    def arg_local(self, op, scope='inner'):
        """Root local an argument operand copies from (through temporaries).  A NAMED local that was given its value outside
        the proposal loop is where the chase stops: `let score_start = score_current;` is a snapshot, not another name of the
        running value (a named copy made inside the proposal loop is fresh at every proposal and is looked through).  For the
        temperature, which is constant within an inner loop by design, the scope is the OUTER loop (`scope='outer'`): a copy made
        once per inner loop is the schedule's value, a copy made before the loops is not."""
        if isinstance(op, dict) and 'l' in op and not op.get('p'):
            x = op['l']
            inner = getattr(self, 'outer' if scope == 'outer' else 'inner', None) or getattr(self, 'inner', None)
            ibody = set(inner['body']) if inner else None
            for _ in range(12):
                ds = [d for d in self.tr.defs.of(x)]
                if len(ds) != 1 or ds[0][2] != 'assign' or ds[0][3]['r'] != 'use' or 'l' not in ds[0][3]['a'] or ds[0][3]['a']['p']:
                    break
                if self.body.local_name(x) and x not in self.body.args() and ibody is not None and ds[0][0] not in ibody:
                    return x
                x = ds[0][3]['a']['l']
            o = self.tr.origin({'k': 'copy', 'l': x, 'p': []})
            if o['o'] in ('local', 'arg') and not o['p']:
                # (origin() may look through further single-definition copies: only if none of them is such a snapshot)
                return o['l'] if o['l'] == x or not self.body.local_name(x) or ibody is None else x
            return None
        o = self.tr.origin(op)
        if o['o'] in ('local', 'arg') and not o['p']:
            return o['l']
        return None

    def old_local(self):
        """score_current: the local whose value is passed as the f64 'old' argument."""
        f64_args = [(i, a) for i, a in enumerate(self.decision['args']) if a.get('ty') == 'f64']
        return f64_args

    def self_field(self, op):
        """If operand reads a field of the optimiser struct (self), return its name."""
        o = self.tr.origin(op)
        if o['o'] == 'arg' and o['l'] == 1:
            fp = field_path(o['p'])
            if len(fp) == 1:
                return fp[0]
        return None
