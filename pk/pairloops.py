"""Recognition of the pair loops of the two State::score paths (overlap test, energy sum):
the triangular in-cell nest (enumerate + skip(index+c)) and the periodic nest
(placements x relative positions x periodic_images)."""
from .anchors import is_trait_call
from .cfg import CFG
from .lineage import IDENTITY_ADAPTORS, adaptor_chain, through
from .loops import for_loops, item_of, lift
from .mirutil import Tracer, call_matches, callee_name, const_value, field_path
from .sym import NUM, SYM


def closure_is_shape_transform(f, tr, map_term):
    """map(|p| self.shape.transform(&p)) ?"""
    co = tr.origin(map_term['args'][1])
    if not (co['o'] == 'rvalue' and co['rv'].get('agg') == 'closure'):
        return False
    cb = f.body(co['rv']['closure'])
    if cb is None:
        return False
    tc = Tracer(cb)
    calls = list(cb.calls())
    if len(calls) != 1 or not is_trait_call(calls[0][1], 'Shape', 'transform') or calls[0][1]['dest']['l'] != 0:
        return False
    a0 = tc.origin(calls[0][1]['args'][0])
    a1 = tc.origin(calls[0][1]['args'][1])
    return a0['o'] == 'arg' and a0['l'] == 1 and field_path(a0['p'])[-1:] == ['shape'] and a1['o'] == 'arg' and a1['l'] == 2


class PairLoops:
    def __init__(self, f, body, leaf_trait, leaf_method):
        self.f = f
        # nest form (pk/loopform.py): helpers unknown to the reference tree spliced in, any/fold/sum as loops, the adaptor
        # that feeds a loop directly (map/filter/flat_map/product) fused into the loop
        body = f.nest_form(body, yields=False)
        self.b = body
        self.cfg = CFG(body)
        self.tr = Tracer(body)
        self.loops = for_loops(body, self.cfg, self.tr)
        for d in self.loops:
            d['chain_all'] = d['chain']
            keep = [c for c in d['chain_terms'] if c[0] not in IDENTITY_ADAPTORS]
            d['chain_terms'] = keep
            d['chain'] = [c[0] for c in keep]
            self._zip_of_placements_and_shapes(d)
        self.by_header = {d['header']: d for d in self.loops}
        self.leafs = [(bi, t) for bi, t in body.calls() if is_trait_call(t, leaf_trait, leaf_method)]
        self.problems = []
        self.tri = None
        self.per = None
        self._analyse()

    def _zip_of_placements_and_shapes(self, d):
        """`X.zip(X.map(|p| shape.transform(p)))` visits every element of X once, as (placement, placed shape): treat it as
        a loop over X whose item.0 is the placement and item.1 the shape placed there."""
        if d['chain'] != ['zip']:
            return
        zt = d['chain_terms'][0][1]
        if len(zt['args']) != 2:
            return
        sb, cb = adaptor_chain(self.tr, zt['args'][1])
        sigb = [c for c in cb if c[0] not in IDENTITY_ADAPTORS]
        sa = d['src']

        def base(o):
            if o['o'] != 'call' or not o['term']['args']:
                return None
            r = self.tr.origin(o['term']['args'][0])
            return (callee_name(o['term']), r.get('o'), r.get('l'), tuple(field_path(r.get('p', []))))
        if base(sa) is None or base(sa) != base(sb):
            return
        if [c[0] for c in sigb] != ['map'] or not closure_is_shape_transform(self.f, self.tr, sigb[0][1]):
            return
        d['zip_shape'] = True
        d['chain'] = []
        d['chain_terms'] = []

    def _src_name(self, d):
        s = d['src']
        return (callee_name(s['term']) or '').rsplit('::', 1)[-1] if s['o'] == 'call' else None

    def shape_source(self, op):
        """Which loop does a shape operand come from?  -> (loop header, field path) or (None, why)."""
        tr = self.tr
        o, _ = through(tr, op)
        if o['o'] == 'call' and is_trait_call(o['term'], 'Shape', 'transform'):
            recv = tr.origin(o['term']['args'][0])
            if not (recv['o'] == 'arg' and field_path(recv['p'])[-1:] == ['shape']):
                return None, 'transform applied to something other than self.shape'
            h, fp = item_of(tr, o['term']['args'][1])
            if h is None:
                return None, 'transformed placement is not a loop item'
            return h, fp
        h, fp = item_of(tr, op)
        if h is not None:
            d = self.by_header.get(h)
            if d and d.get('zip_shape'):
                if fp == ['1']:
                    return h, []
                return None, 'the operand is the placement half of a (placement, shape) pair, not the shape'
            if d and 'map' in d['chain']:
                mt = [c for c in d['chain_terms'] if c[0] == 'map']
                if all(closure_is_shape_transform(self.f, tr, m[1]) for m in mt):
                    return h, fp
                return None, 'loop maps its items through something other than shape.transform'
            return None, 'loop item is not a transformed shape'
        return None, 'operand is neither a loop item nor shape.transform(item)'

    def _analyse(self):
        tr = self.tr
        for bi, t in self.leafs:
            inner = self.cfg.innermost_loop_of(bi)
            if inner is None:
                self.problems.append('leaf call at bb%d is not inside a loop' % bi)
                continue
            h1, fp1 = self.shape_source(t['args'][0])
            h2, fp2 = self.shape_source(t['args'][1])
            if h1 is None or h2 is None:
                self.problems.append('leaf call at bb%d: %s / %s' % (bi, fp1 if h1 is None else 'ok', fp2 if h2 is None else 'ok'))
                continue
            d1, d2 = self.by_header.get(h1), self.by_header.get(h2)
            if d1 is None or d2 is None:
                self.problems.append('leaf call at bb%d: operands are not items of recognised for-loops' % bi)
                continue
            rec = {'bb': bi, 'term': t, 'd1': d1, 'd2': d2, 'fp1': fp1, 'fp2': fp2}
            if 'skip' in d2['chain'] or 'enumerate' in d1['chain']:
                rec.update(self._triangular(d1, d2, fp1, fp2))
                rec['kind'] = 'triangular'
                self.tri = rec
            elif self._src_name(d2) == 'periodic_images':
                rec.update(self._periodic(d1, d2))
                rec['kind'] = 'periodic'
                self.per = rec
            else:
                rec['kind'] = 'unknown'
                self.problems.append('leaf call at bb%d: loop nest not recognised (%s x %s)' % (bi, d1['chain'], d2['chain']))

    def _triangular(self, d1, d2, fp1, fp2):
        tr = self.tr
        out = {'c': None, 'why': []}
        if self._src_name(d1) != 'cartesian_positions' or self._src_name(d2) != 'cartesian_positions':
            out['why'].append('in-cell loops do not both range over cartesian_positions()')
        a1 = [c for c in d1['chain'] if c not in ('enumerate',)]
        a2 = [c for c in d2['chain'] if c not in ('skip',)]
        if a1 != a2 or any(x not in ('map',) for x in a1):
            out['why'].append('the two in-cell iterators differ / use other adaptors: %s vs %s' % (d1['chain'], d2['chain']))
        if 'enumerate' not in d1['chain'] or fp1 != ['1']:
            out['why'].append('outer item is not (index, shape) of an enumerate()')
        sk = [c for c in d2['chain_terms'] if c[0] == 'skip']
        if len(sk) == 1:
            def leaf(o):
                h, fp = None, None
                if o['o'] == 'call' and (callee_name(o['term']) or '').endswith('::next'):
                    fp = field_path(o['p'])
                    if o['bb'] == d1['header'] and fp == ['0', '0']:
                        return SYM('index')
                return None
            e = lift(tr, sk[0][1]['args'][1], leaf)
            if e and e[0] == 'bin' and e[1] == 'Add':
                ops = [e[2], e[3]]
                if SYM('index') in ops:
                    other = ops[1 - ops.index(SYM('index'))]
                    if other[0] == 'num':
                        out['c'] = int(other[1])
            elif e == SYM('index'):
                out['c'] = 0
            if out['c'] is None:
                out['why'].append('skip count is not index + constant')
        elif 'skip' not in d2['chain']:
            out['why'].append('inner loop has no skip(index + c)')
        # nesting
        if d2['loop']['header'] not in d1['loop']['body']:
            out['why'].append('inner loop is not nested in the outer loop')
        return out

    def _periodic(self, d1, d2):
        tr = self.tr
        out = {'why': [], 'shells': None, 'zero': None, 'mid': None}
        if self._src_name(d1) != 'cartesian_positions':
            out['why'].append('outer periodic loop does not range over cartesian_positions()')
        if any(x not in ('map',) for x in d1['chain'] + d2['chain']):
            out['why'].append('periodic loops use adaptors other than map: %s %s' % (d1['chain'], d2['chain']))
        t = d2['src']['term']
        pos_h, pos_fp = item_of(tr, t['args'][1])
        mid = self.by_header.get(pos_h)
        out['mid'] = mid
        if mid is None or self._src_name(mid) != 'relative_positions' or mid['chain'] or pos_fp:
            out['why'].append('periodic_images is not applied to each item of relative_positions()')
        cell = tr.origin(t['args'][0])
        if not (cell['o'] == 'arg' and field_path(cell['p'])[-1:] == ['cell']):
            out['why'].append('periodic_images is not called on self.cell')
        z = tr.origin(t['args'][3])
        out['zero'] = const_value(z['c']) if z['o'] == 'const' else None
        sh = tr.origin(t['args'][2])
        if sh['o'] == 'const':
            out['shells'] = [const_value(sh['c'])]
        elif sh['o'] == 'local':
            vals = []
            for (dbi, si, kind, rv) in tr.defs.of(sh['l']):
                if kind == 'assign' and rv['r'] == 'use' and rv['a'].get('k') == 'const':
                    vals.append(const_value(rv['a']))
                else:
                    vals.append(None)
            out['shells'] = vals
        else:
            out['shells'] = None
        # nesting: d1 contains mid contains d2
        if mid is not None and not (mid['header'] in d1['loop']['body'] and d2['header'] in mid['loop']['body']):
            out['why'].append('periodic loops are not nested placements > relative positions > images')
        return out


def positions_frames(f, adt):
    """cartesian_positions = relative_positions().map(|p| cell.to_cartesian_isometry(p));
    relative_positions = occupied_sites.iter().flat_map(OccupiedSite::positions).  Returns list of problems."""
    probs = []
    cp = f.one(self_adt=adt, name='cartesian_positions')
    rp = f.one(self_adt=adt, name='relative_positions')
    if cp is None or rp is None:
        return ['cartesian_positions / relative_positions not found for %s' % adt]
    def relative_chain_problem(t, src, chain):
        names = [c[0] for c in chain]
        if names[:1] != ['flat_map'] or any(x not in ('flat_map', 'iter', 'deref', 'into_iter') for x in names) or \
                not (src['o'] == 'arg' and field_path(src['p']) == ['occupied_sites']):
            return 'relative_positions is not occupied_sites.iter().flat_map(..): %s' % names
        fn = t.origin(chain[0][1]['args'][1])
        nm = (fn.get('c', {}).get('fn') or '') if fn['o'] == 'const' else ''
        if not nm.replace('packing::', '').endswith('OccupiedSite::positions'):
            return 'relative_positions does not flat_map OccupiedSite::positions'
        return None

    t = Tracer(cp)
    src, chain = adaptor_chain(t, {'k': 'copy', 'l': 0, 'p': []})
    names = [c[0] for c in chain]
    # relative_positions().map(..), or the same sequence spelled out (a shared helper spliced into both accessors)
    via_call = names == ['map'] and src['o'] == 'call' and (callee_name(src['term']) or '').endswith('relative_positions')
    spelled = names[:1] == ['map'] and len(names) > 1 and relative_chain_problem(t, src, chain[1:]) is None
    if not (via_call or spelled):
        probs.append('cartesian_positions is not relative_positions().map(..): %s' % names)
    else:
        co = t.origin(chain[0][1]['args'][1])
        cb = f.body(co['rv']['closure']) if co['o'] == 'rvalue' and co['rv'].get('agg') == 'closure' else None
        ok = False
        if cb is not None:
            tc = Tracer(cb)
            calls = list(cb.calls())
            if len(calls) == 1 and call_matches(calls[0][1], 'Cell2::to_cartesian_isometry') and calls[0][1]['dest']['l'] == 0:
                a0, a1 = tc.origin(calls[0][1]['args'][0]), tc.origin(calls[0][1]['args'][1])
                recv = field_path(a0.get('p', []))[-1:] == ['cell']
                if not recv and a0['o'] == 'arg' and a0['l'] == 1:
                    # the closure captured `&self.cell` itself (a helper taking the cell by reference, spliced in)
                    fi = [e['f'] for e in a0.get('p', []) if isinstance(e, dict) and 'f' in e]
                    ops = co['rv'].get('ops') or []
                    if len(fi) == 1 and fi[0] < len(ops) and 'l' in ops[fi[0]]:
                        oo = t.origin(ops[fi[0]])
                        recv = oo['o'] == 'arg' and oo['l'] == 1 and field_path(oo.get('p', [])) == ['cell']
                ok = recv and a1['o'] == 'arg' and a1['l'] == 2
        if not ok:
            probs.append('cartesian_positions does not map each relative position through self.cell.to_cartesian_isometry')
    t = Tracer(rp)
    src, chain = adaptor_chain(t, {'k': 'copy', 'l': 0, 'p': []})
    pr = relative_chain_problem(t, src, chain)
    if pr:
        probs.append(pr)
    return probs
