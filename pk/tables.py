"""Literal tables lifted from HIR, and the checker's own crystallographic reference data
(independent of the repository's parser)."""
from fractions import Fraction

from .facts import hir_find, walk_hir

# ---- reference: International Tables for Crystallography A, plane groups 1,2,3,4,6,7,8 ------------
# general positions in the standard setting (coordinate triplets)
ITA = {
    'p1':   {'no': 1, 'hm': 'p1',   'system': 'oblique',     'ops': ['x,y']},
    'p2':   {'no': 2, 'hm': 'p2',   'system': 'oblique',     'ops': ['x,y', '-x,-y']},
    'p1m1': {'no': 3, 'hm': 'pm',   'system': 'rectangular', 'ops': ['x,y', '-x,y']},
    'p1g1': {'no': 4, 'hm': 'pg',   'system': 'rectangular', 'ops': ['x,y', '-x,y+1/2']},
    'p2mm': {'no': 6, 'hm': 'p2mm', 'system': 'rectangular', 'ops': ['x,y', '-x,-y', '-x,y', 'x,-y']},
    'p2mg': {'no': 7, 'hm': 'p2mg', 'system': 'rectangular', 'ops': ['x,y', '-x,-y', '-x+1/2,y', 'x+1/2,-y']},
    'p2gg': {'no': 8, 'hm': 'p2gg', 'system': 'rectangular',
             'ops': ['x,y', '-x,-y', '-x+1/2,y+1/2', 'x+1/2,-y+1/2']},
}
# (mirrors, glides, two-folds) among the general positions modulo lattice translations
CONTENT = {'p1': (0, 0, 0), 'p2': (0, 0, 1), 'p1m1': (1, 0, 0), 'p1g1': (0, 1, 0),
           'p2mm': (2, 0, 1), 'p2mg': (1, 1, 1), 'p2gg': (0, 2, 1)}
ORDER = {'p1': 1, 'p2': 2, 'p1m1': 2, 'p1g1': 2, 'p2mm': 4, 'p2mg': 4, 'p2gg': 4}
# lattice system -> the repository's CrystalFamily variant name (2D: oblique=monoclinic, rectangular=orthorhombic)
SYSTEM_FAMILY = {'oblique': 'Monoclinic', 'rectangular': 'Orthorhombic', 'square': 'Tetragonal',
                 'hexagonal': 'Hexagonal'}
# metric tensor constraints per family: G = [[g11, g12],[g12, g22]] as linear combos of free parameters
FAMILY_METRIC = {
    'Monoclinic':   {'free': ['g11', 'g12', 'g22'], 'g11': {'g11': 1}, 'g12': {'g12': 1}, 'g22': {'g22': 1}},
    'Orthorhombic': {'free': ['g11', 'g22'], 'g11': {'g11': 1}, 'g12': {}, 'g22': {'g22': 1}},
    'Tetragonal':   {'free': ['g11'], 'g11': {'g11': 1}, 'g12': {}, 'g22': {'g11': 1}},
    'Hexagonal':    {'free': ['g11'], 'g11': {'g11': 1}, 'g12': {'g11': Fraction(1, 2)}, 'g22': {'g11': 1}},
}


class TripletError(Exception):
    pass


def read_triplet(s):
    """Coordinate triplet (2D) -> ((a,b,tx),(c,d,ty)) with exact rationals.
    Notation's definition: each component is a sum of signed terms; a term is x, y, an integer,
    a fraction p/q or a decimal.  Blanks and one pair of enclosing parentheses are ignored."""
    t = s.strip()
    if t.startswith('(') and t.endswith(')'):
        t = t[1:-1]
    comps = t.split(',')
    if len(comps) != 2:
        raise TripletError('expected 2 components in %r' % s)
    rows = []
    for c in comps:
        c = c.replace(' ', '')
        if not c:
            raise TripletError('empty component in %r' % s)
        i = 0
        cx = cy = Fraction(0)
        k = Fraction(0)
        while i < len(c):
            sign = 1
            if c[i] in '+-':
                sign = -1 if c[i] == '-' else 1
                i += 1
            if i >= len(c):
                raise TripletError('dangling sign in %r' % s)
            j = i
            while j < len(c) and c[j] not in '+-':
                j += 1
            term = c[i:j]
            i = j
            coef = Fraction(1)
            var = None
            body = term
            if body.endswith('x') or body.endswith('y'):
                var = body[-1]
                body = body[:-1].rstrip('*')
            if body:
                try:
                    coef = Fraction(body)
                except (ValueError, ZeroDivisionError):
                    raise TripletError('bad term %r in %r' % (term, s))
            if var == 'x':
                cx += sign * coef
            elif var == 'y':
                cy += sign * coef
            else:
                k += sign * coef
        rows.append((cx, cy, k))
    return tuple(rows)


def op_mod1(op):
    (a, b, tx), (c, d, ty) = op
    return ((a, b, tx % 1), (c, d, ty % 1))


def compose(p, q):
    """p after q."""
    (a, b, tx), (c, d, ty) = p
    (e, f, ux), (g, h, uy) = q
    return ((a * e + b * g, a * f + b * h, a * ux + b * uy + tx),
            (c * e + d * g, c * f + d * h, c * ux + d * uy + ty))


IDENT = ((Fraction(1), Fraction(0), Fraction(0)), (Fraction(0), Fraction(1), Fraction(0)))


def linear(op):
    (a, b, _), (c, d, _) = op
    return ((a, b), (c, d))


def det(op):
    (a, b), (c, d) = linear(op)
    return a * d - b * c


def classify(op):
    """'identity' | 'twofold' | 'mirror' | 'glide' | 'other' for an operation modulo lattice translations."""
    W = linear(op)
    I = ((1, 0), (0, 1))
    mI = ((-1, 0), (0, -1))
    (a, b, tx), (c, d, ty) = op
    if W == I:
        return 'identity' if (tx % 1 == 0 and ty % 1 == 0) else 'translation'
    if W == mI:
        return 'twofold'
    if det(op) == -1:
        # intrinsic translation = (W t + t)/2
        ix = (a * tx + b * ty + tx) / 2
        iy = (c * tx + d * ty + ty) / 2
        # a mirror has zero intrinsic part modulo the lattice translations along the mirror line
        if ix % 1 == 0 and iy % 1 == 0:
            return 'mirror'
        return 'glide'
    return 'other'


def metric_invariant(op, family):
    """W^T G W == G for the generic metric tensor of `family` (exact, linear in the free parameters)."""
    fm = FAMILY_METRIC[family]
    (a, b), (c, d) = linear(op)
    for p in fm['free']:
        g11 = Fraction(fm['g11'].get(p, 0))
        g12 = Fraction(fm['g12'].get(p, 0))
        g22 = Fraction(fm['g22'].get(p, 0))
        # W^T G W
        n11 = a * (g11 * a + g12 * c) + c * (g12 * a + g22 * c)
        n12 = a * (g11 * b + g12 * d) + c * (g12 * b + g22 * d)
        n22 = b * (g11 * b + g12 * d) + d * (g12 * b + g22 * d)
        if (n11, n12, n22) != (g11, g12, g22):
            return False
    return True


# ---- lifting -------------------------------------------------------------------------------------

def _strings_in(e):
    out = []
    walk_hir(e, lambda n: out.append(n['v']) if n.get('k') == 'lit' and n.get('lt') == 'str' else None)
    return out


def _paths_in(e):
    out = []
    walk_hir(e, lambda n: out.append(n['def']) if n.get('k') == 'path' and 'def' in n else None)
    return out


def _pat_variants(p):
    """Variant def paths named by a pattern (path patterns, or-patterns)."""
    out = []
    if not isinstance(p, dict):
        return out
    k = p.get('p')
    if k == 'expr' and isinstance(p.get('e'), dict) and p['e'].get('k') == 'path' and 'def' in p['e']:
        out.append(p['e']['def'])
    elif k in ('struct', 'tstruct') and 'def' in p.get('path', {}):
        out.append(p['path']['def'])
    elif k == 'or':
        for q in p['pats']:
            out.extend(_pat_variants(q))
    elif k == 'wild' or k == 'bind':
        out.append('_')
    return out


def lift_group_table_by_value(facts):
    """The group table read off the VALUE of the function WallpaperGroups -> WallpaperGroup: every path is executed
    symbolically (helpers by their definitions, vec! literals as sequences); a path's conditions on the discriminant of the
    parameter say which variants take it, its result is the WallpaperGroup literal.  Independent of how the table is laid out
    in the source (one match, one match per field, helper methods, constants)."""
    from .sym import SymEx, SYM, sfield
    from .celltables import _family_of_pc
    cands = []
    for b in facts.bodies.values():
        if b.is_closure or b.arg_count != 1 or b.derived:
            continue
        a_ty = facts.norm(b.local_ty(1)).replace('&', '').strip()
        r_ty = facts.norm(b.local_ty(0))
        if a_ty.endswith('wallpaper::WallpaperGroups') and 'wallpaper::WallpaperGroup<' in r_ty + '<' and 'WallpaperGroups' not in r_ty:
            cands.append(b)
    if len(cands) > 1:
        # the CLI's lookup is the entry point; pub helpers it is built from (a `group()` method, a `From` impl) are spliced
        # into it and also kept as functions of their own
        entry = [c for c in cands if c.path.endswith('get_wallpaper_group')]
        if len(entry) == 1:
            cands = entry
    if len(cands) != 1:
        return None, None, ['expected exactly one function from WallpaperGroups to WallpaperGroup, found %d' % len(cands)]
    b = cands[0]
    adt = facts.adts.get('wallpaper::WallpaperGroups')
    if not adt:
        return None, None, ['enum WallpaperGroups not found']
    variants = list(adt['variants'])
    pname = b.local_name(1) or 'arg1'
    def symbolic_runs():
        sx = SymEx(facts)
        try:
            outs = sx.run(b, [SYM(pname)])
        except Exception:      # noqa: BLE001
            return None
        if not outs or sx.aborted:
            return None
        return [(_family_of_pc(o.pc, variants, who=pname), sx, o) for o in outs]

    def concrete_runs():
        # a table indexed by `name as usize`, a lookup by discriminant: evaluate once per variant with the variant as argument
        from .sym import STRUCT
        runs = []
        ety = facts.norm(b.local_ty(1)).replace('&', '').strip()
        for i, v in enumerate(variants):
            sx = SymEx(facts)
            try:
                outs = sx.run(b, [STRUCT(ety, (v, i), [])])
            except Exception:      # noqa: BLE001
                return None
            if len(outs) != 1 or sx.aborted:
                return None
            runs.append(({v}, sx, outs[0]))
        return runs

    def build(runs):
        table, problems = {}, []
        for vs, sx, o in runs:
            r = sx.deep(o.st, o.ret)
            for _ in range(2):
                if isinstance(r, tuple) and r[0] == 'struct' and r[2] is not None and r[2][0] in ('Ok', 'Some'):
                    r = sfield(r, '0')
            if not (isinstance(r, tuple) and r[0] == 'struct' and r[1].endswith('wallpaper::WallpaperGroup')):
                problems.append('variants %s do not yield a WallpaperGroup value' % sorted(vs))
                continue
            nm, fam, ops = sfield(r, 'name'), sfield(r, 'family'), sfield(r, 'wyckoff_str')
            rec = {'name': nm[1] if isinstance(nm, tuple) and nm[0] == 'str' else None,
                   'family': fam[2][0] if isinstance(fam, tuple) and fam[0] == 'struct' and fam[2] is not None else None,
                   'ops': None, 'line': b.span.get('line')}
            if rec['name'] is None:
                problems.append('variants %s: name is not a string constant' % sorted(vs))
            if rec['family'] is None:
                problems.append('variants %s: family is not a CrystalFamily constant' % sorted(vs))
            items = sx.as_seq(o.st, ops)
            if items is not None and all(isinstance(x, tuple) and x[0] == 'str' for x in items):
                rec['ops'] = [x[1] for x in items]
            else:
                problems.append('variants %s: wyckoff_str is not a list of string constants' % sorted(vs))
            for v in sorted(vs):
                if v in table and table[v] != rec:
                    problems.append('variant %s reaches two different groups' % v)
                table[v] = rec
        for v in variants:
            if v not in table:
                problems.append('variant %s yields no group' % v)
        return table, problems
    best = None
    for mk in (symbolic_runs, concrete_runs):
        runs = mk()
        if runs is None:
            continue
        table, problems = build(runs)
        if not problems:
            return b.path, table, problems
        if best is None:
            best = (table, problems)
    if best is None:
        return None, None, ['the group table function could not be evaluated']
    return b.path, best[0], best[1]


def lift_group_table(facts):
    """(fn path, {variant: {'name': str|None, 'family': str|None, 'ops': [str]}}, problems): by value (see
    lift_group_table_by_value); when the function cannot be evaluated, by the syntax of the one match over
    wallpaper::WallpaperGroups whose arms build a WallpaperGroup."""
    vpath, vtable, vproblems = lift_group_table_by_value(facts)
    if vtable and not vproblems:
        return vpath, vtable, vproblems
    found = []
    for path, h in facts.hir.items():
        ms = hir_find(h['body'], lambda n: n.get('k') == 'match' and
                      n.get('scrut_ty', '').replace('packing::', '').endswith('wallpaper::WallpaperGroups'))
        for m in ms:
            structs = hir_find(m, lambda n: n.get('k') == 'struct' and
                               n.get('path', {}).get('def', '').replace('packing::', '') == 'wallpaper::WallpaperGroup')
            if structs:
                found.append((path, m))
    if len(found) != 1:
        return None, None, ['expected exactly one match over WallpaperGroups that builds WallpaperGroup values, found %d'
                            % len(found)]
    path, m = found[0]
    table = {}
    problems = []
    for arm in m['arms']:
        vs = _pat_variants(arm['pat'])
        structs = hir_find(arm['body'], lambda n: n.get('k') == 'struct' and
                           n.get('path', {}).get('def', '').replace('packing::', '') == 'wallpaper::WallpaperGroup')
        if len(structs) != 1:
            problems.append('arm %s builds %d WallpaperGroup literals' % (vs, len(structs)))
            continue
        st = structs[0]
        rec = {'name': None, 'family': None, 'ops': None, 'line': st.get('span', {}).get('line')}
        if arm.get('guard') is not None:
            problems.append('arm %s has a guard' % vs)
        for fl in st['fields']:
            if fl['name'] == 'name':
                ss = _strings_in(fl['e'])
                rec['name'] = ss[0] if len(ss) == 1 else None
                if len(ss) != 1:
                    problems.append('arm %s: name is not a single string literal' % vs)
            elif fl['name'] == 'family':
                ps = [p for p in _paths_in(fl['e']) if 'CrystalFamily::' in p]
                rec['family'] = ps[0].rsplit('::', 1)[-1] if len(ps) == 1 else None
                if len(ps) != 1:
                    problems.append('arm %s: family is not a single CrystalFamily path' % vs)
            elif fl['name'] == 'wyckoff_str':
                arrays = hir_find(fl['e'], lambda n: n.get('k') == 'array')
                if len(arrays) == 1 and all(x.get('k') == 'lit' and x.get('lt') == 'str' for x in arrays[0]['elems']):
                    rec['ops'] = [x['v'] for x in arrays[0]['elems']]
                else:
                    problems.append('arm %s: wyckoff_str is not one array of string literals' % vs)
        if 'base' in st:
            problems.append('arm %s uses struct update syntax' % vs)
        for v in vs:
            vn = v.rsplit('::', 1)[-1]
            if vn in table:
                problems.append('variant %s matched by two arms' % vn)
            table[vn] = rec
    return path, table, problems
