"""Scalar replacement of aggregates on exported MIR (normalisation, judges nothing).

A local of struct or tuple type that is only ever built field by field / from an aggregate literal, read and written
through its fields (directly or through references that can only point to it), and copied as a whole to other such
locals, is replaced by one local per field.  After helper splicing this makes "values that travel together in a struct"
(`Proposal { new, old, kt }`, `LoopOutcome { score, rejections }`, a fold's `(score, rejected)` accumulator) look exactly
like the separate locals the analyses of the running values are written for.

Anything that could observe the aggregate as a whole disqualifies it (passed to a call, returned, reference stored or
passed on, enum / union types, the function's own parameters and return slot).
"""
import copy
import re

from .facts import Body


DEBUG = None      # set to a list to record why a candidate was rejected (development aid)


def _first_field(p):
    return p and isinstance(p[0], dict) and 'f' in p[0]


class _Info:
    def __init__(self):
        self.bad = set()
        self.fields = {}        # local -> {field index: type}
        self.nfields = {}       # local -> number of fields from an aggregate literal
        self.whole = []         # (dst local, src local)  whole copies between locals
        self.refs = {}          # ref local -> ('ref', target local) | ('copy', other ref local)
        self.names = {}         # (local, field) -> name
        self.optys = {}         # (local, field) -> type of the operand an aggregate literal puts there


def _tuple_arity(ty):
    ty = (ty or '').strip()
    if not (ty.startswith('(') and ty.endswith(')')) or ty == '()':
        return None
    depth, n, cur = 0, 0, ''
    for ch in ty[1:-1]:
        if ch in '<([':
            depth += 1
        elif ch in '>)]':
            depth -= 1
        if ch == ',' and depth == 0:
            if cur.strip():
                n += 1
            cur = ''
        else:
            cur += ch
    if cur.strip():
        n += 1
    return n


def _tuple_field_ty(ty, fi):
    """Type of component fi of a tuple type string `(A, B, ..)`, or None."""
    ty = (ty or '').strip()
    if not (ty.startswith('(') and ty.endswith(')')):
        return None
    parts, depth, cur = [], 0, ''
    for ch in ty[1:-1]:
        if ch in '<([':
            depth += 1
        elif ch in '>)]':
            depth -= 1
        if ch == ',' and depth == 0:
            parts.append(cur.strip())
            cur = ''
        else:
            cur += ch
    if cur.strip():
        parts.append(cur.strip())
    return parts[fi] if fi < len(parts) else None


def sroa(facts, body, max_rounds=8):
    cur = body
    total = 0
    for _ in range(max_rounds):
        cur0, n0 = deref_refs_once(cur)
        nb, n = _sroa_once(facts, cur0)
        if n0 and not n:
            nb, n = cur0, n0
        nb, n2 = unwrap_constant_variants(facts, nb)
        n += n2
        if n == 0:
            break
        total += n
        cur = nb
    if cur is not body:
        cur.sroa = total
    return cur


def deref_refs_once(body):
    """Reference forwarding: for a reference local with exactly one definition `r = &[mut] P`, where P is a local or a field path
    of a local (no deref, no index), every place `(*r).rest` IS the place `P.rest` — whatever else happens to P.  Plain copies of
    such a reference (`r2 = move r`, a closure environment field after SROA) are the same reference.  Rewriting them leaves
    direct accesses for the analyses (a closure that captured `&score_start`, a `&mut self` helper spliced into its caller, a
    reference captured by reference); references that are no longer read are dropped."""
    blocks, locs = body.blocks, body.locals
    ndefs = {}
    for bb in blocks:
        for s in bb['stmts']:
            if s['s'] == 'assign' and not s['place']['p']:
                ndefs[s['place']['l']] = ndefs.get(s['place']['l'], 0) + 1
        t = bb['term']
        if t['t'] == 'call' and t.get('dest') and not t['dest']['p']:
            ndefs[t['dest']['l']] = ndefs.get(t['dest']['l'], 0) + 1
    m = {}
    for bb in blocks:
        for s in bb['stmts']:
            if s['s'] != 'assign' or s['place']['p']:
                continue
            r2, rv = s['place']['l'], s['rv']
            if rv['r'] != 'ref' or ndefs.get(r2, 0) != 1 or r2 <= body.arg_count:
                continue
            pl = rv['place']
            if any(not (isinstance(e, dict) and ('f' in e or 'downcast' in e)) for e in pl['p']):
                continue
            if pl['l'] == r2:
                continue
            m[r2] = (pl['l'], list(pl['p']))
    grew = True
    while grew and m:
        grew = False
        for bb in blocks:
            for s in bb['stmts']:
                if s['s'] == 'assign' and not s['place']['p'] and s['rv']['r'] == 'use' and 'l' in s['rv']['a'] and \
                        not s['rv']['a']['p'] and s['rv']['a']['l'] in m and s['place']['l'] not in m and \
                        ndefs.get(s['place']['l'], 0) == 1 and s['place']['l'] > body.arg_count:
                    m[s['place']['l']] = m[s['rv']['a']['l']]
                    grew = True
    if not m:
        return body, 0
    count = [0]

    def rw(x):
        if isinstance(x, dict):
            if 'l' in x and 'p' in x and x['l'] in m and x['p'][:1] == ['deref']:
                y = dict(x)
                tl, tp = m[x['l']]
                y['l'] = tl
                y['p'] = copy.deepcopy(tp) + [rw(e) for e in x['p'][1:]]
                if y.get('k') == 'move':
                    y['k'] = 'copy'
                count[0] += 1
                return y
            return {k: rw(v) for k, v in x.items()}
        if isinstance(x, list):
            return [rw(v) for v in x]
        return x
    raw = dict(body.raw)
    raw['blocks'] = rw(copy.deepcopy(body.raw['blocks']))
    if not count[0]:
        return body, 0

    def mentions(x, l):
        if isinstance(x, dict):
            if x.get('l') == l and 'p' in x:
                return True
            return any(mentions(v, l) for v in x.values())
        if isinstance(x, list):
            return any(mentions(v, l) for v in x)
        return False
    changed = True
    while changed:
        changed = False
        for r2 in list(m):
            uses = 0
            for bb in raw['blocks']:
                for st in bb['stmts']:
                    if st['s'] == 'assign' and st['place']['l'] == r2 and not st['place']['p']:
                        continue
                    if mentions(st, r2):
                        uses += 1
                if mentions(bb['term'], r2):
                    uses += 1
            if uses == 0:
                for bb in raw['blocks']:
                    bb['stmts'] = [st for st in bb['stmts'] if not (st['s'] == 'assign' and st['place']['l'] == r2 and not st['place']['p'])]
                del m[r2]
                changed = True
    raw['locals'] = copy.deepcopy(body.raw['locals'])
    nb = Body(raw, body.crate_kind)
    for a in ('key_in_facts', 'inlined', 'original', 'fused', 'yields'):
        if hasattr(body, a):
            setattr(nb, a, getattr(body, a))
    return nb, count[0]


def _struct_like(facts, ty):
    """Is a type string a tuple or a workspace struct (single-variant, not an enum)?"""
    ty = (ty or '').strip()
    if ty.startswith(('&', '*', '[', 'std::option::Option', 'std::result::Result', 'std::vec::Vec', 'std::boxed::Box')):
        return False
    if _tuple_arity(ty):
        return True
    if ty.startswith('{closure@'):
        return True         # the environment of a closure: one field per capture
    base = re.sub(r'<.*$', '', ty).replace('packing::', '')
    a = facts.adts.get(base)
    if a is not None:
        vs = a.get('variants') or []
        return len(vs) == 1 and vs[0] == base.rsplit('::', 1)[-1]
    return False


def _struct_arity(facts, ty):
    base = re.sub(r'<.*$', '', (ty or '').strip()).replace('packing::', '')
    a = facts.adts.get(base)
    if a is not None:
        return len(a.get('fields') or [])
    return None


def _sroa_once(facts, body):
    blocks, locs = body.blocks, body.locals
    nloc = len(locs)
    info = _Info()
    cand = set()
    for l in range(body.arg_count + 1, nloc):
        if _struct_like(facts, locs[l]['ty']):
            cand.add(l)
    if not cand:
        return body, 0
    # references that can only point to one candidate
    refdef = {}
    ndefs = {}
    for bi, bb in enumerate(blocks):
        for s in bb['stmts']:
            if s['s'] == 'assign' and not s['place']['p']:
                ndefs[s['place']['l']] = ndefs.get(s['place']['l'], 0) + 1
        t = bb['term']
        if t['t'] == 'call' and not t['dest']['p']:
            ndefs[t['dest']['l']] = ndefs.get(t['dest']['l'], 0) + 1
    for bi, bb in enumerate(blocks):
        for s in bb['stmts']:
            if s['s'] != 'assign' or s['place']['p']:
                continue
            r, rv = s['place']['l'], s['rv']
            if ndefs.get(r, 0) != 1 or not locs[r]['ty'].startswith('&'):
                continue
            if rv['r'] == 'ref' and not rv['place']['p'] and rv['place']['l'] in cand:
                refdef[r] = ('ref', rv['place']['l'])
            elif rv['r'] == 'ref' and rv['place']['p'] == ['deref']:
                refdef[r] = ('copy', rv['place']['l'])
            elif rv['r'] == 'use' and 'l' in rv['a'] and not rv['a']['p'] and locs[rv['a']['l']]['ty'].startswith('&'):
                refdef[r] = ('copy', rv['a']['l'])
    root = {}

    def root_of(r, depth=0):
        if r in root:
            return root[r]
        d = refdef.get(r)
        out = None
        if d is not None and depth < 20:
            out = d[1] if d[0] == 'ref' else root_of(d[1], depth + 1)
        root[r] = out
        return out
    for r in list(refdef):
        root_of(r)
    alias = {r: l for r, l in root.items() if l is not None}

    def bad(l):
        if l in cand:
            if DEBUG is not None and l not in info.bad:
                import traceback
                DEBUG.append((l, locs[l]['ty'], traceback.extract_stack()[-2].lineno))
            info.bad.add(l)

    def seen_field(l, e):
        info.fields.setdefault(l, {})[e['f']] = e.get('ty', '?')
        if e.get('n'):
            info.names[(l, e['f'])] = e['n']

    def visit_place(pl, ctx):
        """ctx in: 'dest', 'read', 'reftarget', 'other'"""
        l, p = pl['l'], pl['p']
        if l in cand:
            if not p:
                return 'whole'
            if _first_field(p):
                seen_field(l, p[0])
                return 'field'
            bad(l)
            return None
        if l in alias:
            tgt = alias[l]
            if not p:
                return 'alias'
            if p[0] == 'deref':
                if len(p) == 1:
                    return 'whole*'
                if _first_field(p[1:]):
                    seen_field(tgt, p[1])
                    return 'field*'
            bad(tgt)
            return None
        for e in p:
            if isinstance(e, dict) and e.get('idx') in cand:
                bad(e['idx'])
        return None
    for bi, bb in enumerate(blocks):
        for s in bb['stmts']:
            if s['s'] == 'setdiscr':
                if s['place']['l'] in cand:
                    bad(s['place']['l'])
                continue
            if s['s'] != 'assign':
                continue
            rv = s['rv']
            kd = visit_place(s['place'], 'dest')
            r = rv['r']
            if kd in ('whole', 'whole*'):
                dst = s['place']['l'] if kd == 'whole' else alias[s['place']['l']]
                if r == 'aggr' and rv.get('agg') in ('tuple', 'adt', 'closure') and (rv.get('agg') == 'tuple' or _struct_like(facts, locs[dst]['ty'])):
                    info.nfields[dst] = max(info.nfields.get(dst, 0), len(rv['ops']))
                    for i, o in enumerate(rv['ops']):
                        oty = locs[o['l']]['ty'] if ('l' in o and not o['p']) else o.get('ty')
                        if oty and not str(oty).startswith('?'):
                            info.optys[(dst, i)] = oty
                    for i, nm in enumerate(rv.get('fields') or []):
                        info.names[(dst, i)] = nm
                    for o in rv['ops']:
                        if 'l' in o and visit_place(o, 'read') in ('whole', 'alias', 'whole*'):
                            src = o['l'] if o['l'] in cand else alias.get(o['l'])
                            if not o['p'] or o['p'] == ['deref']:
                                # a whole candidate stored as a field of another: keep both intact
                                bad(src)
                elif (r == 'use' or (r == 'cast' and rv.get('kind', '').startswith('Subtype'))) and 'l' in rv['a']:
                    ks = visit_place(rv['a'], 'read')
                    if ks in ('whole', 'whole*'):
                        src = rv['a']['l'] if ks == 'whole' else alias[rv['a']['l']]
                        info.whole.append((dst, src))
                    else:
                        bad(dst)
                else:
                    bad(dst)
                    for k in ('a', 'b', 'place'):
                        if k in rv and isinstance(rv[k], dict) and 'l' in rv[k]:
                            ks = visit_place(rv[k], 'read')
                            if ks in ('whole', 'whole*', 'alias'):
                                bad(rv[k]['l'] if ks == 'whole' else alias[rv[k]['l']])
                    for o in rv.get('ops', []):
                        if isinstance(o, dict) and 'l' in o:
                            ks = visit_place(o, 'read')
                            if ks in ('whole', 'whole*', 'alias'):
                                bad(o['l'] if ks == 'whole' else alias[o['l']])
                continue
            if kd == 'alias':
                # the defining statement of an alias reference (checked above); anything else writes the reference itself
                d = refdef.get(s['place']['l'])
                ok = d is not None and ((r == 'ref' and (rv['place']['l'] == d[1])) or (r == 'use' and rv['a'].get('l') == d[1]))
                if not ok:
                    bad(alias[s['place']['l']])
                continue
            # right-hand sides that mention candidates
            if r == 'use' and 'l' in rv['a']:
                ks = visit_place(rv['a'], 'read')
                if ks in ('whole', 'whole*', 'alias'):
                    src = rv['a']['l'] if ks == 'whole' else alias[rv['a']['l']]
                    bad(src)        # the whole value (or a reference to it) flows into something that is not a candidate
            elif r in ('ref', 'rawptr'):
                ks = visit_place(rv['place'], 'reftarget')
                if ks in ('whole', 'whole*', 'alias'):
                    src = rv['place']['l'] if ks == 'whole' else alias[rv['place']['l']]
                    dl = s['place']['l']
                    if not (dl in alias and alias[dl] == src and not s['place']['p']):
                        bad(src)
            elif r == 'discr':
                ks = visit_place(rv['place'], 'read')
                if ks in ('whole', 'whole*'):
                    bad(rv['place']['l'] if ks == 'whole' else alias[rv['place']['l']])
            else:
                for k in ('a', 'b'):
                    if k in rv and isinstance(rv[k], dict) and 'l' in rv[k]:
                        ks = visit_place(rv[k], 'read')
                        if ks in ('whole', 'whole*', 'alias'):
                            bad(rv[k]['l'] if ks == 'whole' else alias[rv[k]['l']])
                for o in rv.get('ops', []):
                    if isinstance(o, dict) and 'l' in o:
                        ks = visit_place(o, 'read')
                        if ks in ('whole', 'whole*', 'alias'):
                            bad(o['l'] if ks == 'whole' else alias[o['l']])
        t = bb['term']
        if t['t'] == 'call':
            kd = visit_place(t['dest'], 'dest')
            if kd in ('whole', 'whole*', 'alias'):
                bad(t['dest']['l'] if kd == 'whole' else alias[t['dest']['l']])
            for a in t['args']:
                if isinstance(a, dict) and 'l' in a:
                    ks = visit_place(a, 'read')
                    if ks in ('whole', 'whole*', 'alias'):
                        bad(a['l'] if ks == 'whole' else alias[a['l']])
        elif t['t'] == 'switch':
            if 'l' in t['discr']:
                ks = visit_place(t['discr'], 'read')
                if ks in ('whole', 'whole*', 'alias'):
                    bad(t['discr']['l'] if ks == 'whole' else alias[t['discr']['l']])
        elif t['t'] == 'assert':
            for a in [t['cond']] + list(t.get('ops', [])):
                if isinstance(a, dict) and 'l' in a:
                    visit_place(a, 'read')
        elif t['t'] == 'drop':
            pass
    # whole copies connect candidates: a bad one spoils its component
    changed = True
    while changed:
        changed = False
        for d, s2 in info.whole:
            if (d in info.bad) != (s2 in info.bad) or d not in cand or s2 not in cand:
                for x in (d, s2):
                    if x in cand and x not in info.bad:
                        info.bad.add(x)
                        changed = True
    ok_c = {l for l in cand if l not in info.bad}
    comp = {l: l for l in ok_c}

    def find(x):
        while comp[x] != x:
            comp[x] = comp[comp[x]]
            x = comp[x]
        return x
    for d, s2 in info.whole:
        if d in ok_c and s2 in ok_c:
            comp[find(d)] = find(s2)
    # a component is split if any member tells us its fields (a literal, a projection, its type)
    informed = set()
    for l in ok_c:
        if info.fields.get(l) or info.nfields.get(l) or _tuple_arity(locs[l]['ty']) or _struct_arity(facts, locs[l]['ty']):
            informed.add(find(l))
    used = set()
    for bb in blocks:
        for s in bb['stmts']:
            if s['s'] == 'assign':
                used.add(s['place']['l'])
    good = {l for l in ok_c if find(l) in informed}
    # the return slot and parameters never qualify (range above)
    if not good or not any(info.fields.get(l) or info.nfields.get(l) for l in good):
        return body, 0
    fset = {}
    for l in good:
        c = find(l)
        fs = set(info.fields.get(l, {}))
        fs |= set(range(info.nfields.get(l, 0)))
        ar = _tuple_arity(locs[l]['ty']) or _struct_arity(facts, locs[l]['ty'])
        if ar:
            fs |= set(range(ar))
        fset.setdefault(c, set()).update(fs)
    raw = dict(body.raw)
    raw['blocks'] = copy.deepcopy(body.raw['blocks'])
    raw['locals'] = copy.deepcopy(body.raw['locals'])
    raw['debug'] = copy.deepcopy(body.raw.get('debug') or [])
    nl = raw['locals']
    newl = {}
    for l in sorted(good):
        for fi in sorted(fset[find(l)]):
            ty = info.fields.get(l, {}).get(fi)
            if ty is None or str(ty).startswith('?'):
                for l2 in sorted(good):
                    if find(l2) != find(l):
                        continue
                    cands2 = [info.fields.get(l2, {}).get(fi), info.optys.get((l2, fi)), _tuple_field_ty(locs[l2]['ty'], fi)]
                    for c2 in cands2:
                        if c2 and not str(c2).startswith('?'):
                            ty = c2
                            break
                    if ty and not str(ty).startswith('?'):
                        break
            nm = info.names.get((l, fi))
            base = locs[l].get('name')
            nl.append({'ty': ty or '?', 'name': ('%s.%s' % (base, nm if nm is not None else fi)) if base else None, 'mut': True,
                       'sroa': [l, fi], 'inl': locs[l].get('inl')})
            newl[(l, fi)] = len(nl) - 1

    def rw_place(pl):
        l, p = pl['l'], pl['p']
        if l in good and _first_field(p):
            return {'l': newl[(l, p[0]['f'])], 'p': p[1:], 'ty': pl.get('ty')}
        if l in alias and alias[l] in good and len(p) >= 2 and p[0] == 'deref' and _first_field(p[1:]):
            return {'l': newl[(alias[l], p[1]['f'])], 'p': p[2:], 'ty': pl.get('ty')}
        return pl

    def rw_op(o):
        if isinstance(o, dict) and 'l' in o:
            q = rw_place(o)
            if q is not o:
                q = dict(q)
                q['k'] = o.get('k', 'copy')
                return q
        return o
    for bb in raw['blocks']:
        out = []
        for s in bb['stmts']:
            if s['s'] != 'assign':
                out.append(s)
                continue
            pl, rv = s['place'], s['rv']
            span = s.get('span')
            dst = None
            if pl['l'] in good and not pl['p']:
                dst = pl['l']
            elif pl['l'] in alias and alias[pl['l']] in good and pl['p'] == ['deref']:
                dst = alias[pl['l']]
            if dst is not None:
                if rv['r'] == 'aggr':
                    for i, o in enumerate(rv['ops']):
                        out.append({'s': 'assign', 'place': {'l': newl[(dst, i)], 'p': [], 'ty': nl[newl[(dst, i)]]['ty']},
                                    'rv': {'r': 'use', 'a': rw_op(o)}, 'span': span, 'sroa': True})
                elif rv['r'] in ('use', 'cast') and 'l' in rv['a']:
                    a = rv['a']
                    src = a['l'] if a['l'] in good else alias.get(a['l'])
                    for fi in sorted(fset[find(dst)]):
                        out.append({'s': 'assign', 'place': {'l': newl[(dst, fi)], 'p': [], 'ty': nl[newl[(dst, fi)]]['ty']},
                                    'rv': {'r': 'use', 'a': {'k': a.get('k', 'copy'), 'l': newl[(src, fi)], 'p': [], 'ty': nl[newl[(src, fi)]]['ty']}},
                                    'span': span, 'sroa': True})
                continue
            if pl['l'] in alias and alias[pl['l']] in good and not pl['p']:
                continue        # the reference itself is no longer needed
            s2 = dict(s)
            s2['place'] = rw_place(pl)
            rv2 = dict(rv)
            for k in ('a', 'b'):
                if k in rv2:
                    rv2[k] = rw_op(rv2[k])
            if 'place' in rv2:
                rv2['place'] = rw_place(rv2['place'])
            if 'ops' in rv2:
                rv2['ops'] = [rw_op(o) for o in rv2['ops']]
            s2['rv'] = rv2
            out.append(s2)
        bb['stmts'] = out
        t = bb['term']
        if t['t'] == 'call':
            t['args'] = [rw_op(a) for a in t['args']]
            t['dest'] = rw_place(t['dest'])
        elif t['t'] == 'switch':
            t['discr'] = rw_op(t['discr'])
        elif t['t'] == 'assert':
            t['cond'] = rw_op(t['cond'])
            if 'ops' in t:
                t['ops'] = [rw_op(a) for a in t['ops']]
        elif t['t'] == 'drop':
            if t['place']['l'] in good and not t['place']['p']:
                bb['term'] = {'t': 'goto', 'target': t['target'], 'span': t.get('span')}
            else:
                t['place'] = rw_place(t['place'])
    for d in raw['debug']:
        if 'place' in d:
            d['place'] = rw_place(d['place'])
    nb = Body(raw, body.crate_kind)
    nb.key_in_facts = getattr(body, 'key_in_facts', body.path)
    nb.inlined = list(getattr(body, 'inlined', []))
    nb.fused = list(getattr(body, 'fused', []))
    nb.yields = getattr(body, 'yields', False)
    nb.original = getattr(body, 'original', body)
    return nb, len(good)


# ---------------------------------------------------------------------------------------------------------------------
# Enum locals that hold one variant only

def _is_enum_ty(facts, ty):
    ty = (ty or '').strip()
    if ty.startswith(('std::option::Option<', 'std::result::Result<')):
        return True
    base = re.sub(r'<.*$', '', ty).replace('packing::', '')
    a = facts.adts.get(base)
    return a is not None and len(a.get('variants') or []) > 1


def unwrap_constant_variants(facts, body):
    """An enum local (Option, Result, workspace enum) every definition of which builds the SAME variant — the `next: Option<T>`
    of a generator that never ends, an `Ok(..)`-only result slot — is replaced by one local per payload field; `discr` of it
    becomes the constant and switches on that constant are folded.  Whole copies connect locals into components; any use
    that could observe the enum as a whole (argument, reference, return, other projection) leaves the component alone."""
    locs = body.locals
    cand = {l for l in range(body.arg_count + 1, len(locs)) if _is_enum_ty(facts, locs[l]['ty'])}
    if not cand:
        return body, 0
    bad = set()
    variants = {}
    fields = {}
    edges = []
    discr_reads = []

    def mention(pl, ctx):
        l, p = pl['l'], pl['p']
        for e in p:
            if isinstance(e, dict) and e.get('idx') in cand:
                bad.add(e['idx'])
        if l not in cand:
            return None
        if not p:
            return 'whole'
        if len(p) >= 2 and isinstance(p[0], dict) and 'downcast' in p[0] and isinstance(p[1], dict) and 'f' in p[1]:
            variants.setdefault(l, set()).add(p[0].get('vi'))
            fields.setdefault(l, {})[p[1]['f']] = p[1].get('ty', '?')
            return 'field'
        bad.add(l)
        return None

    for bi, bb in enumerate(body.blocks):
        for si, s in enumerate(bb['stmts']):
            if s['s'] == 'setdiscr':
                if s['place']['l'] in cand:
                    bad.add(s['place']['l'])
                continue
            if s['s'] != 'assign':
                continue
            pl, rv = s['place'], s['rv']
            kd = mention(pl, 'dest')
            r = rv['r']
            if kd == 'whole':
                x = pl['l']
                if r == 'aggr' and rv.get('agg') == 'adt' and 'vi' in rv:
                    variants.setdefault(x, set()).add(rv['vi'])
                    for i, o in enumerate(rv['ops']):
                        oty = locs[o['l']]['ty'] if ('l' in o and not o['p']) else o.get('ty')
                        fields.setdefault(x, {}).setdefault(i, oty or '?')
                        if 'l' in o and mention(o, 'read') == 'whole':
                            bad.add(o['l'])
                elif r == 'use' and 'l' in rv['a'] and mention(rv['a'], 'read') == 'whole':
                    edges.append((x, rv['a']['l']))
                else:
                    bad.add(x)
                    for k in ('a', 'b', 'place'):
                        if k in rv and isinstance(rv[k], dict) and 'l' in rv[k] and mention(rv[k], 'read') == 'whole':
                            bad.add(rv[k]['l'])
                continue
            if r == 'discr' and not rv['place']['p'] and rv['place']['l'] in cand:
                discr_reads.append((bi, si))
                continue
            for k in ('a', 'b', 'place'):
                if k in rv and isinstance(rv[k], dict) and 'l' in rv[k]:
                    if mention(rv[k], 'read') == 'whole':
                        bad.add(rv[k]['l'])
            for o in rv.get('ops', []):
                if isinstance(o, dict) and 'l' in o and mention(o, 'read') == 'whole':
                    bad.add(o['l'])
        t = bb['term']
        if t['t'] == 'call':
            if mention(t['dest'], 'dest') is not None:
                bad.add(t['dest']['l'])
            for a in t['args']:
                if isinstance(a, dict) and 'l' in a and mention(a, 'read') is not None and not a['p']:
                    bad.add(a['l'])
        elif t['t'] == 'switch':
            if 'l' in t['discr'] and mention(t['discr'], 'read') == 'whole':
                bad.add(t['discr']['l'])
        elif t['t'] == 'assert':
            for a in [t['cond']] + list(t.get('ops', [])):
                if isinstance(a, dict) and 'l' in a and mention(a, 'read') == 'whole':
                    bad.add(a['l'])
    comp = {l: l for l in cand}

    def find(x):
        while comp[x] != x:
            comp[x] = comp[comp[x]]
            x = comp[x]
        return x
    for a, b2 in edges:
        comp[find(a)] = find(b2)
    cvar, cbad, cfields = {}, set(), {}
    for l in cand:
        c = find(l)
        if l in bad:
            cbad.add(c)
        cvar.setdefault(c, set()).update(variants.get(l, set()))
        for fi, ty in fields.get(l, {}).items():
            cur = cfields.setdefault(c, {}).get(fi)
            if cur is None or str(cur).startswith('?'):
                cfields[c][fi] = ty
    good = {l for l in cand if find(l) not in cbad and len(cvar.get(find(l), ())) == 1 and None not in cvar[find(l)]}
    # at least one member must actually be defined by an aggregate (otherwise nothing is known)
    defined = set()
    for bb in body.blocks:
        for s in bb['stmts']:
            if s['s'] == 'assign' and not s['place']['p'] and s['place']['l'] in good and s['rv']['r'] == 'aggr':
                defined.add(find(s['place']['l']))
    good = {l for l in good if find(l) in defined}
    if not good:
        return body, 0
    raw = dict(body.raw)
    raw['blocks'] = copy.deepcopy(body.raw['blocks'])
    raw['locals'] = copy.deepcopy(body.raw['locals'])
    nl = raw['locals']
    newl = {}
    for l in sorted(good):
        for fi, ty in sorted(cfields.get(find(l), {}).items()):
            base = locs[l].get('name')
            nl.append({'ty': ty or '?', 'name': ('%s.%s' % (base, fi)) if base else None, 'mut': True, 'sroa': [l, fi], 'variant_of': l})
            newl[(l, fi)] = len(nl) - 1

    def rw_place(pl):
        l, p = pl['l'], pl['p']
        if l in good and len(p) >= 2 and isinstance(p[0], dict) and 'downcast' in p[0] and (l, p[1]['f']) in newl:
            return {'l': newl[(l, p[1]['f'])], 'p': p[2:], 'ty': pl.get('ty')}
        return pl

    def rw_op(o):
        if isinstance(o, dict) and 'l' in o:
            q = rw_place(o)
            if q is not o:
                q = dict(q)
                q['k'] = o.get('k', 'copy')
                return q
        return o
    for bb in raw['blocks']:
        out = []
        for s in bb['stmts']:
            if s['s'] != 'assign':
                out.append(s)
                continue
            pl, rv = s['place'], s['rv']
            span = s.get('span')
            if pl['l'] in good and not pl['p']:
                x = pl['l']
                if rv['r'] == 'aggr':
                    for i, o in enumerate(rv['ops']):
                        if (x, i) in newl:
                            out.append({'s': 'assign', 'place': {'l': newl[(x, i)], 'p': [], 'ty': nl[newl[(x, i)]]['ty']},
                                        'rv': {'r': 'use', 'a': rw_op(o)}, 'span': span, 'sroa': True})
                elif rv['r'] == 'use':
                    y = rv['a']['l']
                    for (l2, fi), nidx in sorted(newl.items()):
                        if l2 == x and (y, fi) in newl:
                            out.append({'s': 'assign', 'place': {'l': nidx, 'p': [], 'ty': nl[nidx]['ty']},
                                        'rv': {'r': 'use', 'a': {'k': rv['a'].get('k', 'copy'), 'l': newl[(y, fi)], 'p': [], 'ty': nl[nidx]['ty']}},
                                        'span': span, 'sroa': True})
                continue
            s2 = dict(s)
            rv2 = dict(rv)
            if rv['r'] == 'discr' and not rv['place']['p'] and rv['place']['l'] in good:
                v = list(cvar[find(rv['place']['l'])])[0]
                rv2 = {'r': 'use', 'a': {'k': 'const', 'ty': pl.get('ty', 'isize'), 'int': str(v), 'syn': 'constant-variant'}}
            else:
                for k in ('a', 'b'):
                    if k in rv2:
                        rv2[k] = rw_op(rv2[k])
                if 'place' in rv2:
                    rv2['place'] = rw_place(rv2['place'])
                if 'ops' in rv2:
                    rv2['ops'] = [rw_op(o) for o in rv2['ops']]
            s2['place'] = rw_place(pl)
            s2['rv'] = rv2
            out.append(s2)
        bb['stmts'] = out
        t = bb['term']
        if t['t'] == 'call':
            t['args'] = [rw_op(a) for a in t['args']]
            t['dest'] = rw_place(t['dest'])
        elif t['t'] == 'assert':
            t['cond'] = rw_op(t['cond'])
            if 'ops' in t:
                t['ops'] = [rw_op(a) for a in t['ops']]
        elif t['t'] == 'drop' and t['place']['l'] in good and not t['place']['p']:
            bb['term'] = {'t': 'goto', 'target': t['target'], 'span': t.get('span')}
    # fold switches on a constant discriminant computed in the same block
    for bb in raw['blocks']:
        t = bb['term']
        if t['t'] != 'switch' or 'l' not in t['discr'] or t['discr']['p']:
            continue
        d = t['discr']['l']
        val = None
        for s in bb['stmts']:
            if s['s'] == 'assign' and s['place']['l'] == d and not s['place']['p']:
                a = s['rv'].get('a') if s['rv']['r'] == 'use' else None
                val = int(a['int']) if isinstance(a, dict) and a.get('k') == 'const' and a.get('syn') == 'constant-variant' else None
        if val is None:
            continue
        tgt = t['otherwise']
        for v2, b2 in t['arms']:
            if int(v2) == val:
                tgt = b2
        bb['term'] = {'t': 'goto', 'target': tgt, 'span': t.get('span'), 'syn': 'constant-variant'}
    nb = Body(raw, body.crate_kind)
    for a in ('key_in_facts', 'inlined', 'fused', 'yields', 'original'):
        if hasattr(body, a):
            setattr(nb, a, getattr(body, a))
    return nb, len(good)
