"""Compact MIR pretty printer for development and --explain output.
usage: python3 -m pk.show <facts_dir> <path substring> [--hir]"""
import json
import sys

from .facts import Facts
from .mirutil import proj_names


def op_s(o):
    if not isinstance(o, dict):
        return str(o)
    if o.get('k') == 'const':
        if 'fn' in o:
            return 'fn ' + (o.get('resolved') or o['fn'])
        for k in ('int', 'f', 'bool', 'str', 'char'):
            if k in o:
                return 'const %r' % (o[k],)
        return 'const<%s %s>' % (o.get('ty'), o.get('dbg', o.get('uneval', '')))
    return '%s _%d%s' % (o.get('k', 'place'), o['l'], proj_names(o['p']))


def rv_s(rv):
    r = rv['r']
    if r == 'use':
        return op_s(rv['a'])
    if r == 'binop':
        return '%s(%s, %s)' % (rv['op'], op_s(rv['a']), op_s(rv['b']))
    if r == 'unop':
        return '%s(%s)' % (rv['op'], op_s(rv['a']))
    if r == 'ref':
        return '&%s%s' % ('mut ' if rv['mut'] else '', op_s(rv['place']))
    if r == 'rawptr':
        return '&raw %s' % op_s(rv['place'])
    if r == 'cast':
        return '%s as %s [%s]' % (op_s(rv['a']), rv['to'], rv['kind'])
    if r == 'discr':
        return 'discr(%s)' % op_s(rv['place'])
    if r == 'aggr':
        nm = rv.get('agg')
        if nm == 'adt':
            nm = '%s::%s' % (rv['adt'], rv['variant'])
        elif nm == 'closure':
            nm = 'closure ' + rv['closure']
        return '%s{%s}' % (nm, ', '.join(op_s(o) for o in rv['ops']))
    return r + ' ' + rv.get('dbg', '')


def show_body(b, out=sys.stdout):
    out.write('fn %s  [%s]\n' % (b.path, b.where()))
    for i, l in enumerate(b.locals):
        out.write('  let _%d: %s%s\n' % (i, l['ty'], ('  // ' + l['name']) if l.get('name') else ''))
    for i, bb in enumerate(b.blocks):
        out.write(' bb%d%s:\n' % (i, ' (cleanup)' if bb['cleanup'] else ''))
        for s in bb['stmts']:
            if s['s'] == 'assign':
                out.write('    %s = %s   // :%d\n' % (op_s(s['place']), rv_s(s['rv']), s['span']['line']))
            else:
                out.write('    %s\n' % json.dumps(s)[:200])
        t = bb['term']
        k = t['t']
        ln = t['span']['line']
        if k == 'call':
            out.write('    %s = call %s(%s) -> bb%s unwind %s  // :%d\n' % (
                op_s(t['dest']), op_s(t['func']), ', '.join(op_s(a) for a in t['args']), t['target'], t['unwind'], ln))
        elif k == 'switch':
            out.write('    switch %s %s otherwise bb%d  // :%d\n' % (
                op_s(t['discr']), ' '.join('%s->bb%d' % (a[0], a[1]) for a in t['arms']), t['otherwise'], ln))
        elif k == 'assert':
            out.write('    assert %s == %s [%s %s] -> bb%d  // :%d\n' % (
                op_s(t['cond']), t['expected'], t['kind'], t.get('binop'), t['target'], ln))
        elif k == 'drop':
            out.write('    drop %s -> bb%d\n' % (op_s(t['place']), t['target']))
        elif k == 'goto':
            out.write('    goto bb%d\n' % t['target'])
        else:
            out.write('    %s\n' % k)


if __name__ == '__main__':
    f = Facts(sys.argv[1])
    pat = sys.argv[2]
    if '--hir' in sys.argv:
        for k, h in f.hir.items():
            if pat in k:
                print(json.dumps(h, indent=1))
    else:
        for k, b in f.bodies.items():
            if pat in k:
                show_body(b)
