// Positive controls for zero-expected rules: every forbidden construct below MUST be flagged on every run.
#![allow(dead_code)]
use std::cell::{Cell, UnsafeCell};
use std::rc::Rc;
use std::sync::atomic::AtomicUsize;
use std::sync::{Arc, Mutex};

pub static mut GLOBAL_BEST: f64 = 0.;
pub static COUNTER: AtomicUsize = AtomicUsize::new(0);
thread_local! { pub static TL: Cell<u64> = Cell::new(0); }

pub struct RootState {
    pub shared: SharedBad,
    pub ptr: PtrBad,
    pub arc: ArcBad,
    pub cell: Cell<f64>,
    pub r: RefBad<'static>,
    pub items: Vec<f64>,
}
pub struct SharedBad {
    pub v: Rc<UnsafeCell<f64>>,
}
pub struct PtrBad {
    pub p: *mut f64,
}
pub struct RefBad<'a> {
    pub r: &'a f64,
}
pub struct ArcBad {
    pub a: Arc<Mutex<f64>>,
}

pub fn nondeterministic() -> u64 {
    let t = std::time::SystemTime::now();
    let _ = std::env::var("X");
    let m: std::collections::HashMap<u64, u64> = Default::default();
    m.len() as u64 + t.elapsed().map(|d| d.as_secs()).unwrap_or(0)
}

pub fn root_calls_nondeterministic() -> u64 {
    nondeterministic() + 1
}

pub struct CloneBad {
    a: f64,
    b: f64,
}
impl Clone for CloneBad {
    fn clone(&self) -> Self {
        CloneBad { a: self.a, b: self.a }
    }
}
