// One-off reproduction of F6 (C03.R2) against the real code (NOT part of any check).
// The same p2 crystal of LJ discs described from two symmetry-equivalent origins (shift by the half lattice vector
// (1/2, 0), which maps the set of 2-fold centres onto itself) must have the same score.
use packing::traits::*;
use packing::wallpaper::{get_wallpaper_group, WallpaperGroups};
use packing::{LJShape2, PotentialState2};

fn state_with(x: f64, y: f64) -> PotentialState2<LJShape2> {
    let wg = get_wallpaper_group(WallpaperGroups::p2).unwrap();
    let s = PotentialState2::from_group(LJShape2::circle(), &wg).unwrap();
    let mut v: serde_json::Value = serde_json::from_str(&serde_json::to_string(&s).unwrap()).unwrap();
    v["cell"]["length"] = serde_json::json!(6.0);
    v["occupied_sites"][0]["x"] = serde_json::json!(x);
    v["occupied_sites"][0]["y"] = serde_json::json!(y);
    serde_json::from_value(v).unwrap()
}

#[test]
fn f6_origin_shift_changes_score() {
    let a = state_with(0.1, 0.0).score().unwrap();
    let b = state_with(0.1 - 0.5, 0.0).score().unwrap();
    println!("F6: p2 disc crystal, site x=0.1 -> score {} ; same crystal described from the 2-fold at (1/2,0), x=-0.4 -> score {}", a, b);
    assert!((a - b).abs() < 1e-6, "one crystal, two scores (beyond the truncation error of the uncut sum)");
}
