// One-off reproduction of F2-F5 against the real code (NOT part of any check).
// Copy to <scratch repo>/tests/demo_optimiser.rs and run `cargo test --test demo_optimiser -- --nocapture`.
use std::sync::Mutex;

use packing::traits::*;
use packing::wallpaper::{Wallpaper, WyckoffSite};
use packing::{BuildOptimiser, CrystalFamily, LineShape, PackedState, StandardBasis, Transform2};
use serde::Serialize;

static LOG: Mutex<Vec<(Vec<f64>, Option<f64>)>> = Mutex::new(Vec::new());

/// Delegating State that records the parameter vector and score at every score() call.
#[derive(Clone, Debug, Serialize)]
struct Rec(PackedState<LineShape>);
impl PartialEq for Rec { fn eq(&self, o: &Self) -> bool { self.0 == o.0 } }
impl Eq for Rec {}
impl PartialOrd for Rec { fn partial_cmp(&self, o: &Self) -> Option<std::cmp::Ordering> { self.0.partial_cmp(&o.0) } }
impl Ord for Rec { fn cmp(&self, o: &Self) -> std::cmp::Ordering { self.0.cmp(&o.0) } }
impl ToSVG for Rec { type Value = svg::Document; fn as_svg(&self) -> Self::Value { self.0.as_svg() } }
impl State for Rec {
    fn score(&self) -> Option<f64> {
        let s = self.0.score();
        let params: Vec<f64> = self.0.generate_basis().iter().map(|b| b.get_value()).collect();
        LOG.lock().unwrap().push((params, s));
        s
    }
    fn generate_basis(&self) -> Vec<StandardBasis> { self.0.generate_basis() }
    fn total_shapes(&self) -> usize { self.0.total_shapes() }
    fn as_positions(&self) -> Result<String, anyhow::Error> { self.0.as_positions() }
}

fn p2_square() -> Rec {
    let square = LineShape::from_radial("Square", vec![1., 1., 1., 1.]).unwrap();
    let wallpaper = Wallpaper { name: String::from("p2"), family: CrystalFamily::Monoclinic };
    let isopointal = &[WyckoffSite {
        letter: 'd',
        symmetries: vec![Transform2::from_operations("x,y").unwrap(), Transform2::from_operations("-x,-y").unwrap()],
        num_rotations: 1, mirror_primary: false, mirror_secondary: false,
    }];
    Rec(PackedState::<LineShape>::initialise(square, wallpaper, isopointal))
}

#[test]
fn f3_zero_temperature_accepts_worse() {
    LOG.lock().unwrap().clear();
    let s = p2_square();
    // stage 1: a correct hill-climb (explicit ratio, single inner loop) to get a dense state
    let s1 = BuildOptimiser::default().seed(0).steps(20000).inner_steps(20000).kt_start(0.).kt_ratio(Some(0.))
        .max_step_size(0.01).build().optimise_state(s);
    let first = s1.score().unwrap();
    // stage 2: kt_start = 0 with a finishing temperature (what the CLI does in its 1st and 3rd stage)
    let opt = BuildOptimiser::default().seed(0).steps(3000).inner_steps(1000).kt_start(0.).kt_finish(0.001)
        .max_step_size(0.01).build();
    let out = opt.optimise_state(s1);
    let last = out.score().unwrap();
    println!("F3: kt_start=0, kt_finish=0.001, 3x1000 steps: input score {} -> returned score {}", first, last);
    assert!(last >= first, "zero-temperature run lowered the score");
}

#[test]
fn f5_steps_exceed_max_step_size() {
    LOG.lock().unwrap().clear();
    let s = p2_square();
    let max_step = 0.001;
    let opt = BuildOptimiser::default().seed(1).steps(400).inner_steps(100).kt_start(0.).kt_ratio(Some(0.))
        .max_step_size(max_step).build();
    let ranges = [ (s.0.cell.a() - 0.01), 0.9, std::f64::consts::PI / 2. - std::f64::consts::PI / 6., 1., 1., 2. * std::f64::consts::PI ];
    let _ = opt.optimise_state(s);
    let log = LOG.lock().unwrap();
    // every proposal differs from SOME earlier state in one parameter by <= max_step*range/2; find the largest single-parameter
    // jump between consecutive score() calls relative to that bound (consecutive calls = proposal vs previous proposal/held state)
    let mut worst: f64 = 0.;
    for w in log.windows(2) {
        let (a, b) = (&w[0].0, &w[1].0);
        let changed: Vec<usize> = (0..a.len()).filter(|&i| a[i] != b[i]).collect();
        for &i in &changed {
            let bound = max_step * ranges[i] / 2.;
            worst = worst.max((a[i] - b[i]).abs() / bound);
        }
    }
    println!("F5: largest single-parameter change between consecutive evaluations = {:.1} x (max_step_size*range/2)", worst);
    // a reject-undo followed by a new proposal can move two parameters by one bound each, never one parameter by >2 bounds
    assert!(worst <= 2.0 + 1e-9, "moves exceed the configured maximum step");
}

#[test]
fn f2_zero_steps_panics() {
    let s = p2_square();
    let opt = BuildOptimiser::default().seed(0).steps(0).build();
    let _ = opt.optimise_state(s);
}

#[test]
fn f2_zero_inner_steps_panics() {
    let s = p2_square();
    let opt = BuildOptimiser::default().seed(0).steps(100).inner_steps(0).kt_ratio(Some(0.)).build();
    let _ = opt.optimise_state(s);
}
