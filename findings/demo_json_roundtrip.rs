// One-off reproduction of F8 (C11) against the real code (NOT part of any check).
// `tools/run_demo.sh findings/demo_json_roundtrip.rs [repo]`.
// serde_json's default float reader is fast but not correctly rounded: it may return a neighbour of the value
// whose shortest decimal it is given.  The writer (ryu) is exact, so reading back what was written changes the
// parameter by one ulp, and with it the placements, the score and the re-serialisation.
use packing::traits::*;
use packing::wallpaper::{Wallpaper, WyckoffSite};
use packing::{CrystalFamily, LineShape, PackedState, Transform2};

fn p2_square() -> PackedState<LineShape> {
    let square = LineShape::from_radial("Square", vec![1., 1., 1., 1.]).unwrap();
    let wallpaper = Wallpaper { name: String::from("p2"), family: CrystalFamily::Monoclinic };
    let isopointal = &[WyckoffSite {
        letter: 'd',
        symmetries: vec![Transform2::from_operations("x,y").unwrap(), Transform2::from_operations("-x,-y").unwrap()],
        num_rotations: 1, mirror_primary: false, mirror_secondary: false,
    }];
    PackedState::<LineShape>::initialise(square, wallpaper, isopointal)
}

/// Values an optimisation produced in a sub-agent's run (cell angle, cell length): finite, in range.
const VALUES: &[f64] = &[1.3971374395758567, 11.309252430733421];

#[test]
fn f8_float_survives_the_reader() {
    for &v in VALUES {
        let text = serde_json::to_string(&v).unwrap();
        let back: f64 = serde_json::from_str(&text).unwrap();
        println!("F8 scalar {:?} -> {} -> {:?} bits {:x} vs {:x}", v, text, back, v.to_bits(), back.to_bits());
        assert_eq!(v.to_bits(), back.to_bits(), "serde_json read back a different f64 from its own output");
    }
}

#[test]
fn f8_state_round_trip_is_identical() {
    let state = p2_square();
    // put the state where an optimisation put it: write the parameter cells through the public Basis interface
    let mut basis = state.generate_basis();
    for b in basis.iter_mut() {
        let v = b.get_value();
        // the cell angle (close to pi/2 initially) and the first length get the recorded values
        if (v - std::f64::consts::FRAC_PI_2).abs() < 1e-12 {
            b.set_value(VALUES[0]);
        }
    }
    let json = serde_json::to_string(&state).unwrap();
    let back: PackedState<LineShape> = serde_json::from_str(&json).unwrap();
    let rejson = serde_json::to_string(&back).unwrap();
    println!("F8 score {:?} -> {:?}", state.score(), back.score());
    assert_eq!(json, rejson, "re-serialisation differs");
    assert_eq!(state.score().map(f64::to_bits), back.score().map(f64::to_bits), "score differs");
    assert_eq!(state.as_positions().unwrap(), back.as_positions().unwrap(), "placements differ");
}
