// One-off reproduction (NOT part of any check): the LJ score searches 3 shells of periodic images whatever the cell.
// For the cut trimer (every particle cut at 3.5) in a p1 cell of side 1.2 particles of the 4th image along a lattice vector
// are 4*1.2 - 1.732 = 3.07 < 3.5 from particles of the molecule: those pairs are inside the cutoff and missing from the score.
use packing::traits::*;
use packing::wallpaper::{get_wallpaper_group, WallpaperGroups};
use packing::{LJShape2, PotentialState2, Transform2};

fn state(length: f64) -> PotentialState2<LJShape2> {
    let wg = get_wallpaper_group(WallpaperGroups::p1).unwrap();
    let s = PotentialState2::from_group(LJShape2::from_trimer(0.637_556, 120., 1.), &wg).unwrap();
    let mut v: serde_json::Value = serde_json::from_str(&serde_json::to_string(&s).unwrap()).unwrap();
    v["cell"]["length"] = serde_json::json!(length);
    serde_json::from_value(v).unwrap()
}

// minus the energy per molecule of the infinite crystal, all images out to `shells` (p1: one molecule per cell)
fn oracle(s: &PotentialState2<LJShape2>, shells: i64) -> f64 {
    let centre = s.cell.to_cartesian_isometry(Transform2::new(0., (-0.5 + 0.5, -0.5 + 0.5)));
    let _ = centre;
    let positions: Vec<Transform2> = s.cartesian_positions().collect();
    assert_eq!(positions.len(), 1);
    let m0 = s.shape.transform(&positions[0]);
    let mut sum = 0.;
    for rel in s.relative_positions() {
        for t in s.cell.periodic_images(rel, shells, false) {
            sum += 0.5 * m0.energy(&s.shape.transform(&t));
        }
    }
    -sum
}

#[test]
fn three_shells_miss_pairs_inside_the_cutoff() {
    for &l in &[1.2, 1.7, 4.0] {
        let s = state(l);
        let got = s.score().unwrap();
        let o3 = oracle(&s, 3);
        let o4 = oracle(&s, 4);
        let o8 = oracle(&s, 8);
        println!("side {}: score {:.6}  oracle(3 shells) {:.6}  oracle(4) {:.6}  oracle(8) {:.6}", l, got, o3, o4, o8);
    }
    let s = state(1.2);
    assert!((s.score().unwrap() - oracle(&s, 8)).abs() < 1e-9, "pairs inside the cutoff are missing from the score");
}
