// Design-time search (NOT part of any check): cells for which the overlap of p1 unit squares is only visible in the k-th
// neighbouring shell.  Output lines feed the static witness table SHELL_WITNESSES in pk/rules/C01.py.
use std::f64::consts::PI;

use packing::traits::*;
use packing::wallpaper::{Wallpaper, WyckoffSite};
use packing::{CrystalFamily, LineShape, PackedState, Transform2};

fn state(length: f64, ratio: f64, cell_angle: f64, site_angle: f64) -> PackedState<LineShape> {
    let square = LineShape::from_radial("Square", vec![1., 1., 1., 1.]).unwrap();
    let wallpaper = Wallpaper { name: String::from("p1"), family: CrystalFamily::Monoclinic };
    let isopointal = &[WyckoffSite { letter: 'a', symmetries: vec![Transform2::from_operations("x,y").unwrap()],
        num_rotations: 1, mirror_primary: false, mirror_secondary: false }];
    let s = PackedState::<LineShape>::initialise(square, wallpaper, isopointal);
    let mut v = serde_json::to_value(&s).unwrap();
    v["cell"]["length"] = length.into();
    v["cell"]["ratio"] = ratio.into();
    v["cell"]["angle"] = cell_angle.into();
    v["occupied_sites"][0]["x"] = 0.0.into();
    v["occupied_sites"][0]["y"] = 0.0.into();
    v["occupied_sites"][0]["angle"] = site_angle.into();
    serde_json::from_value(v).unwrap()
}

/// smallest k such that an overlap with a lattice image is found within k shells (None: no overlap within 7 shells)
fn needed(s: &PackedState<LineShape>) -> Option<i64> {
    let reach = 2. * s.shape.enclosing_radius();
    let home: Vec<Transform2> = s.cartesian_positions().collect();
    let rel: Vec<Transform2> = s.relative_positions().collect();
    for k in 1..=7 {
        for t1 in home.iter() {
            let s1 = s.shape.transform(t1);
            for p in rel.iter() {
                for t2 in s.cell.periodic_images(*p, k, false) {
                    if (t1.position() - t2.position()).norm() <= reach && s1.intersects(&s.shape.transform(&t2)) {
                        return Some(k);
                    }
                }
            }
        }
    }
    None
}

#[test]
fn search() {
    let mut found = 0;
    for &p in &[1.2, 1.5, 1.9, 2.4, 2.9, 3.5, 5.0, 8.0] {
        for &deg in &[30., 35., 40., 45., 50., 55., 60., 65., 70., 75., 80., 85., 90.] {
            let angle: f64 = deg * PI / 180.;
            let mut best: Option<(i64, f64, f64)> = None;
            for ai in 0..40 {
                let a = 1.6 + 0.1 * ai as f64;
                for si in 0..18 {
                    let site = (si as f64 * 5.0_f64).to_radians();
                    let s = state(a, 1. / p, angle, site);
                    if let Some(k) = needed(&s) {
                        if k >= 2 && best.map_or(true, |b| k > b.0) {
                            best = Some((k, a, site));
                        }
                    }
                }
            }
            if let Some((k, a, site)) = best {
                found += 1;
                println!("WITNESS p={} angle_deg={} needs_shells={} a={:.2} b={:.4} site_deg={:.1} scored={:?}", p, deg, k, a, a / p,
                         site.to_degrees(), state(a, 1. / p, angle, site).score().is_some());
            }
        }
    }
    println!("found {}", found);
}
