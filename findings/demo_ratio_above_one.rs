// One-off reproduction of F9 (C05) against the real code (NOT part of any check).
// `tools/run_demo.sh findings/demo_ratio_above_one.rs [repo]`.
// With a cooling ratio above 1 the builder stores a NEGATIVE cooling factor (1 - ratio).  Starting from kT = +0 the first
// update gives kT = +0 * negative = -0.0, and at kT = -0.0 a worse proposal has (new - old) / kT = +inf, exp = +inf,
// min(inf, 1) = 1: it is always accepted.  A "zero temperature" run then random-walks downhill.
use packing::traits::*;
use packing::wallpaper::{Wallpaper, WyckoffSite};
use packing::{BuildOptimiser, CrystalFamily, LineShape, PackedState, Transform2};

fn p2_square() -> PackedState<LineShape> {
    let square = LineShape::from_radial("Square", vec![1., 1., 1., 1.]).unwrap();
    let wallpaper = Wallpaper { name: String::from("p2"), family: CrystalFamily::Monoclinic };
    let isopointal = &[WyckoffSite {
        letter: 'd',
        symmetries: vec![Transform2::from_operations("x,y").unwrap(), Transform2::from_operations("-x,-y").unwrap()],
        num_rotations: 1, mirror_primary: false, mirror_secondary: false,
    }];
    PackedState::<LineShape>::initialise(square, wallpaper, isopointal)
}

#[test]
fn f9_zero_temperature_with_ratio_above_one_lowers_the_score() {
    // a correct hill-climb first, to start from a dense state
    let s1 = BuildOptimiser::default().seed(0).steps(20000).inner_steps(20000).kt_start(0.).kt_ratio(Some(0.))
        .max_step_size(0.01).build().optimise_state(p2_square());
    let first = s1.score().unwrap();
    // kt_start = 0, several inner loops, cooling ratio 1.5 (accepted by the CLI: --kt-ratio 1.5)
    let out = BuildOptimiser::default().seed(0).steps(3000).inner_steps(1000).kt_start(0.).kt_ratio(Some(1.5))
        .max_step_size(0.01).build().optimise_state(s1);
    let last = out.score().unwrap();
    println!("F9: kt_start=0, kt_ratio=1.5, 3x1000 steps: input score {} -> returned score {}", first, last);
    assert!(last >= first, "zero-temperature run lowered the score");
}
