#!/bin/bash
# usage: tools/seed_regress.sh [Cxx ...] — every seeded change (seeded/<id>/patch.diff) must still be reported by its target check
cd /verif
props=${@:-C01 C02 C03 C04 C05 C06 C07 C08 C09 C10 C11 C12 C13 C14 C15 C16 C17 C18 C19 C20}
mkdir -p /tmp/seedreg
one() { d=$1; id=$(basename $d); p=${id%%-*}
  T=$(mktemp -d /tmp/pksr-XXXX); cp -r /repo $T/repo; rm -rf $T/repo/target $T/repo/.git
  (cd $T/repo && patch -p1 -s < /verif/$d/patch.diff) || { echo "$id PATCH-FAILED"; rm -rf $T; return; }
  out=$(VERIF_REPO=$T/repo VERIF_SELFCHECK=1 ./check $p 2>&1); rc=$?
  keys=$(echo "$out" | grep -E "^\s+\[" | sed 's/^\s*//' | tr '\n' ' ' | cut -c1-220)
  if [ $rc -ne 0 ]; then echo "$id DETECTED $keys"; elif grep -q '"accepted_miss"' /verif/$d/meta.json 2>/dev/null; then echo "$id ACCEPTED-MISS (not attributed to its target property, see meta.json)"; else echo "$id MISSED"; fi
  rm -rf $T; }
export -f one
ls -d seeded/C*-r* | while read d; do id=$(basename $d); p=${id%%-*}; case " $props " in *" $p "*) echo $d;; esac; done | xargs -P 8 -I{} bash -c 'one {}' | sort
rm -rf /verif/facts/x*
