#!/bin/bash
# usage: tools/mk_variant.sh <base commit> <patch.diff> <dest dir> — scratch tree = /repo at <base> + patch + every later /repo commit
# that still applies (the benign/seeded patches were made against earlier /repo heads; later fix: commits are replayed on top)
base=$1; patch=$(readlink -f $2); dst=$3
rm -rf $dst; mkdir -p $dst
git -C /repo archive $base | tar -x -C $dst
(cd $dst && patch -p1 -s < $patch) || { echo "PATCH FAILED $patch"; exit 2; }
for c in $(git -C /repo rev-list --reverse $base..HEAD); do
  git -C /repo diff $c~1 $c > $dst/.fix.diff
  if (cd $dst && patch -p1 -s -N --dry-run < .fix.diff >/dev/null 2>&1); then (cd $dst && patch -p1 -s -N < .fix.diff); else echo "NOTE: /repo commit $(git -C /repo log --format=%h -1 $c) does not apply on top of $patch"; fi
done
rm -f $dst/.fix.diff
# hand-made replay of a fix: commit where the patch moved the code the fix touches: lines "<relative file><TAB><sed expression>"
fx=$(dirname $patch)/fixups
if [ -f $fx ]; then while IFS=$'\t' read -r f e; do [ -n "$f" ] && sed -i -e "$e" $dst/$f && echo "fixup applied to $f"; done < $fx; fi
