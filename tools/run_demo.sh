#!/bin/bash
# usage: tools/run_demo.sh <demo.rs> [repo dir]  — runs a findings/ reproduction as an integration test in a scratch copy
set -e
demo=$(readlink -f $1); repo=${2:-/repo}
T=$(mktemp -d /tmp/pkdemo-XXXX); cp -r $repo $T/repo; rm -rf $T/repo/target $T/repo/.git
cp $demo $T/repo/tests/
name=$(basename $demo .rs)
(cd $T/repo && CARGO_NET_OFFLINE=true CARGO_TARGET_DIR=/verif/.cache/target-stabletest timeout 600 cargo test --offline --test $name -- --nocapture --test-threads 1 2>&1 | grep -E "^F[0-9]|^WITNESS|^found|^test |panicked|attempt|^error|test result" | head -150) || true
rm -rf $T
