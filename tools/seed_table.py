#!/usr/bin/env python3
"""Write seeded/INDEX.md: one row per seeded change with what it needs and which checks report it."""
import glob, json, os, re
HERE = os.path.dirname(os.path.dirname(os.path.abspath(__file__)))
rows = []
for m in sorted(glob.glob(os.path.join(HERE, 'seeded', '*', 'meta.json'))):
    d = json.load(open(m))
    name = d['seed']
    patch = open(os.path.join(os.path.dirname(m), 'patch.diff')).read()
    files = sorted(set(re.findall(r'^\+\+\+ b/(\S+)', patch, re.M)))
    notes = open(os.path.join(os.path.dirname(m), 'notes.md')).read()
    first = ''
    for l in notes.splitlines():
        l = l.strip(' #*-')
        if len(l) > 40:
            first = l
            break
    det = d.get('detected_by', {})
    tgt = d['property']
    trep = '; '.join(k.split(' [')[0].split('/', 1)[1] for k in det.get(tgt, [])[:2]) or '— (not reported)'
    others = ', '.join(sorted(k for k in det if k != tgt)) or '—'
    rows.append('| %s | %s | %s | %s | %s | %s |' % (name, tgt, ', '.join(files), first[:150].replace('|', '/'), trep.replace('|', '/'), others))
out = ['# Seeded changes (independent sub-agents; each confirmed by me in a scratch worktree)', '',
       'Each directory holds patch.diff, demo.rs (fails with the change, passes without), notes.md (the author\'s description) and',
       'meta.json (what I ran to confirm it and which checks report it). None of these changes is ever committed to /repo.', '',
       '| seed | property | files | what it is (author\'s first line) | reported by the target check as | also reported by |',
       '|------|----------|-------|-----------------------------------|----------------------------------|------------------|'] + rows
open(os.path.join(HERE, 'seeded', 'INDEX.md'), 'w').write('\n'.join(out) + '\n')
print(len(rows), 'rows')
