#!/bin/bash
# usage: tools/eval_seed.sh <dir with patch.diff> [props...]  — run checks against a scratch copy of /repo with the patch applied
d=$(readlink -f $1); shift
T=$(mktemp -d /tmp/pkeval-XXXX); cp -r /repo $T/repo; rm -rf $T/repo/target $T/repo/.git
(cd $T/repo && patch -p1 -s < $d/patch.diff) || { echo "patch failed"; rm -rf $T; exit 2; }
props=${@:-C01 C02 C03 C04 C05 C06 C07 C08 C09 C10 C11 C12 C13 C14 C15 C16 C17 C18 C19 C20}
for p in $props; do
  out=$(VERIF_REPO=$T/repo VERIF_SELFCHECK=1 /verif/check $p 2>&1)
  rc=$?
  echo "$out" | grep -E "^\s+\[" | sed "s/^/  $p /" | cut -c1-200
  [ $rc -ne 0 ] && echo "  $p exit=$rc"
done
rm -rf $T; [ -z "$KEEP_XFACTS" ] && rm -rf /verif/facts/x*
