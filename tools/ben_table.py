#!/usr/bin/env python3
"""tools/ben_table.py <output of tools/ben_eval.sh> — rewrite the per-variant table at the end of benign/README.md."""
import os, re, sys
root = os.path.join(os.path.dirname(os.path.abspath(__file__)), '..')
res, cur = {}, None
for ln in open(sys.argv[1]):
    m = re.match(r'== (\S+): (\d+) failing', ln)
    if m:
        cur = m.group(1)
        res[cur] = set()
        continue
    m = re.match(r'\s+\d+\s+(C\d\d)\s', ln)
    if m and cur:
        res[cur].add(m.group(1))
rows = []
for d in sorted(os.listdir(os.path.join(root, 'benign'))):
    p = os.path.join(root, 'benign', d)
    if not os.path.isdir(p):
        continue
    base = open(os.path.join(p, 'BASE')).read().strip()[:7]
    first = ''
    for ln in open(os.path.join(p, 'notes.md'), errors='replace'):
        ln = ln.strip()
        ln = re.sub(r'^[-*] ', '', ln)
        if len(ln) < 25:
            continue
        if ln and not ln.startswith('# ') and not (ln.startswith('#') and len(ln.lstrip('#').strip()) < 30):
            first = ln.lstrip('#').strip()
            break
    first = first.replace('|', '/')[:110]
    if d not in res:
        st = 'not evaluated'
    else:
        st = 'silent' if not res[d] else 'noisy: ' + ', '.join(sorted(res[d]))
    rows.append('| %s | %s | %s | %s |' % (d, base, st, first))
rp = os.path.join(root, 'benign', 'README.md')
s = open(rp).read()
head = '| variant | base | status | first line of the agent\'s notes |'
i = s.index(head)
s = s[:i] + head + '\n|---------|------|--------|---------------------------------|\n' + '\n'.join(rows) + '\n'
open(rp, 'w').write(s)
print('%d rows, %d silent' % (len(rows), sum(1 for r in rows if '| silent |' in r)))
