#!/usr/bin/env python3
"""Checker self-validation: apply catalogue edits (mutants must be reported, benign refactors must stay silent) to
scratch copies of /repo, extract facts with the same driver, run the property checks.  Never executes repository code.
usage: tools/selfcheck.py [mutants|benign|all] [--props C01,C02] [--only id-substring] [-j N] [--json out.json]"""
import concurrent.futures as cf
import json
import os
import shutil
import subprocess
import sys
import tempfile

HERE = os.path.dirname(os.path.dirname(os.path.abspath(__file__)))
sys.path.insert(0, HERE)
from selfcheck.catalogue import MUTANTS, BENIGN  # noqa

ALL = ['C%02d' % i for i in range(1, 21)]


def apply_edits(dst, edits):
    for rel, old, new in edits:
        p = os.path.join(dst, rel)
        s = open(p).read()
        if s.count(old) != 1:
            return 'pattern occurs %d times in %s: %r' % (s.count(old), rel, old[:60])
        open(p, 'w').write(s.replace(old, new))
    return None


def run_one(kind, entry, props, repo):
    eid = entry['id']
    tmp = tempfile.mkdtemp(prefix='pksc-')
    dst = os.path.join(tmp, 'repo')
    res = {'id': eid, 'kind': kind, 'props': {}, 'error': None}
    try:
        shutil.copytree(repo, dst, ignore=shutil.ignore_patterns('target', '.git'))
        err = apply_edits(dst, entry['edits'])
        if err:
            res['error'] = err
            return res
        env = dict(os.environ, VERIF_REPO=dst, VERIF_SELFCHECK='1')
        for pr in props:
            r = subprocess.run([os.path.join(HERE, 'check'), pr], cwd=HERE, env=env, stdout=subprocess.PIPE, stderr=subprocess.PIPE)
            out = r.stdout.decode() + r.stderr.decode()
            keys = [l.strip().split('] ', 1)[1] for l in out.splitlines() if l.strip().startswith('[') and '] C' in l]
            if 'cargo check failed' in out:
                res['error'] = 'does not compile'
            res['props'][pr] = {'rc': r.returncode, 'keys': keys}
    finally:
        shutil.rmtree(tmp, ignore_errors=True)
        import glob
        import hashlib
        tag = 'x' + hashlib.sha256(os.path.abspath(dst).encode()).hexdigest()[:6]
        for d in glob.glob(os.path.join(HERE, 'facts', tag + '-*')):
            shutil.rmtree(d, ignore_errors=True)
    return res


def main():
    args = sys.argv[1:]
    what = args[0] if args and not args[0].startswith('-') else 'all'
    props = None
    only = None
    jobs = 8
    jout = None
    repo = os.environ.get('VERIF_REPO', '/repo')
    i = 0
    while i < len(args):
        if args[i] == '--props':
            props = args[i + 1].split(',')
        elif args[i] == '--only':
            only = args[i + 1]
        elif args[i] == '-j':
            jobs = int(args[i + 1])
        elif args[i] == '--json':
            jout = args[i + 1]
        i += 1
    work = []
    if what in ('mutants', 'all'):
        for m in MUTANTS:
            if only and only not in m['id']:
                continue
            if props and m['property'] not in props:
                continue
            work.append(('mutant', m, [m['property']]))
    if what in ('benign', 'all'):
        for b in BENIGN:
            if only and only not in b['id']:
                continue
            ps = props or b.get('props') or ALL
            work.append(('benign', b, ps))
    results = []
    with cf.ThreadPoolExecutor(max_workers=jobs) as ex:
        futs = [ex.submit(run_one, k, e, ps, repo) for k, e, ps in work]
        for fu in futs:
            results.append(fu.result())
    killed = missed = silent = noisy = broken = 0
    for r, (k, e, ps) in zip(results, work):
        if r['error']:
            broken += 1
            print('BROKEN  %-8s %s: %s' % (k, r['id'], r['error']))
            continue
        if k == 'mutant':
            pr = e['property']
            got = r['props'][pr]
            hit = got['rc'] == 1 and any(e.get('expect', '') in key for key in got['keys'])
            if hit:
                killed += 1
                print('KILLED  %s -> %s' % (r['id'], [x for x in got['keys'] if e.get('expect', '') in x][:2]))
            else:
                missed += 1
                print('MISSED  %s (rc=%d keys=%s)' % (r['id'], got['rc'], got['keys'][:3]))
        else:
            bad = {p: v['keys'] for p, v in r['props'].items() if v['rc'] != 0}
            if bad:
                noisy += 1
                print('NOISY   %s -> %s' % (r['id'], {p: k[:2] for p, k in bad.items()}))
            else:
                silent += 1
                print('SILENT  %s (%d checks)' % (r['id'], len(r['props'])))
    print('selfcheck: mutants killed %d missed %d; benign silent %d noisy %d; broken %d' % (killed, missed, silent, noisy, broken))
    if jout:
        json.dump({'results': results, 'killed': killed, 'missed': missed, 'silent': silent, 'noisy': noisy, 'broken': broken},
                  open(jout, 'w'), indent=1)
    return 0


if __name__ == '__main__':
    sys.exit(main())
