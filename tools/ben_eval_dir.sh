#!/bin/bash
# usage: tools/ben_eval_dir.sh <dir with Cxx/patch.diff subdirs> <scratch root> [Cxx ...]
cd /verif
src=$1; bt=$2; shift 2
ids=${@:-$(ls $src)}
mkdir -p $bt $bt/out
for i in $ids; do
  [ -f $src/$i/patch.diff ] || continue
  if [ ! -d $bt/$i ]; then cp -r /repo $bt/$i; rm -rf $bt/$i/target $bt/$i/.git; (cd $bt/$i && patch -p1 -s < $src/$i/patch.diff) || echo "PATCH FAILED $i"; fi
done
run1() { i=$1; bt=$2; out=$bt/out/$i.txt; : > $out
  [ -d $bt/$i ] || return
  for p in C01 C02 C03 C04 C05 C06 C07 C08 C09 C10 C11 C12 C13 C14 C15 C16 C17 C18 C19 C20; do
    o=$(VERIF_REPO=$bt/$i VERIF_SELFCHECK=1 ./check $p 2>&1); rc=$?
    echo "$o" | grep -E "^\s+\[" | sed "s/^/  $p /" | cut -c1-200 >> $out
    [ $rc -ne 0 ] && echo "  $p exit=$rc" >> $out
  done; }
export -f run1
echo $ids | tr ' ' '\n' | xargs -P 6 -I{} bash -c "run1 {} $bt"
for i in $ids; do [ -f $bt/out/$i.txt ] || continue; n=$(grep -c "exit=" $bt/out/$i.txt); echo "== $i: $n failing checks"; grep -v "exit=" $bt/out/$i.txt; done
