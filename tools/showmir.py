#!/usr/bin/env python3
"""tools/showmir.py <facts dir> <body path suffix> [lo hi] — print the normalised MIR of one body (debugging aid)."""
import os, sys
sys.path.insert(0, os.path.join(os.path.dirname(os.path.abspath(__file__)), '..'))
from pk.facts import Facts
from pk.show import show_body
f = Facts(sys.argv[1])
bs = [x for k, x in f.bodies.items() if k.endswith(sys.argv[2])]
for b in bs[:1]:
    show_body(b)
