#!/usr/bin/env python3
"""Apply a one-off textual edit to a scratch copy of /repo and run checks on it.
usage: tools/trymut.py <props,comma> <relative file> <old> <new> [--test]
The scratch copy lives under $TMPDIR and is removed afterwards."""
import os, shutil, subprocess, sys, tempfile
props = sys.argv[1].split(',')
rel, old, new = sys.argv[2], sys.argv[3], sys.argv[4]
runtest = '--test' in sys.argv
tmp = tempfile.mkdtemp(prefix='pkmut-')
dst = os.path.join(tmp, 'repo')
shutil.copytree('/repo', dst, ignore=shutil.ignore_patterns('target', '.git'))
p = os.path.join(dst, rel)
s = open(p).read()
if s.count(old) != 1:
    print('pattern occurs %d times' % s.count(old)); shutil.rmtree(tmp); sys.exit(2)
open(p, 'w').write(s.replace(old, new))
env = dict(os.environ, VERIF_REPO=dst)
rc = 0
try:
    for pr in props:
        r = subprocess.run(['./check', pr], cwd='/verif', env=env, stdout=subprocess.PIPE, stderr=subprocess.STDOUT)
        out = r.stdout.decode()
        keep = [l for l in out.splitlines() if l.startswith(('VIOLATION', 'KNOWN', '  [', pr)) or 'error' in l.lower()]
        print('\n'.join(keep[:14]))
        print('%s exit=%d' % (pr, r.returncode))
    if runtest:
        r = subprocess.run('cargo test --offline 2>&1 | grep -E "^test result|FAILED|failed" | head', shell=True, cwd=dst,
                           env=dict(os.environ, CARGO_TARGET_DIR='/verif/.cache/target-stabletest', CARGO_NET_OFFLINE='true'))
finally:
    shutil.rmtree(tmp, ignore_errors=True)
    # drop facts extracted for the scratch copy
    import glob
    for d in glob.glob('/verif/facts/x*'):
        shutil.rmtree(d, ignore_errors=True)
