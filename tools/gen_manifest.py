#!/usr/bin/env python3
"""Regenerate MANIFEST.json from pk/registry.py (claimed properties) — run after editing the registry."""
import json, os, sys
HERE = os.path.dirname(os.path.dirname(os.path.abspath(__file__)))
sys.path.insert(0, HERE)
from pk.registry import PROPS, NA_DEFAULT  # noqa
ids = [json.loads(l)['id'] for l in open(os.path.join(HERE, 'properties.jsonl'))]
checks, na = [], []
for pid in ids:
    p = PROPS.get(pid)
    if p and p['claimed']:
        checks.append({
            'property_id': pid,
            'quick_cmd': './check %s --tier quick' % pid,
            'thorough_cmd': './check %s --tier thorough' % pid,
            'evidence_file': 'evidence/%s.json' % pid,
            'replay_cmd_template': './check %s --explain {path}' % pid,
            'engine': 'pkfacts+pk',
            'level_claimed': {'category': p['category'], 'text': p['text'], 'design_ref': p['design_ref']},
            'level_note': p['note'],
            'technique': p['technique'],
        })
    else:
        na.append({'property_id': pid, 'reason': (p or {}).get('na_reason') or NA_DEFAULT})
m = {
    'version': 1,
    'setup_cmd': './setup.sh',
    'hooks': {
        'guard': 'packing_verif',
        'enable': 'none needed: the analysis reads rustc MIR/HIR of the unmodified sources (RUSTC_WORKSPACE_WRAPPER=driver under cargo +nightly check); --cfg packing_verif guards nothing',
        'baseline_off_cmd': 'cd /repo && cargo test --workspace --no-fail-fast --offline',
        'source_commits': [],
        'add_only': True,
    },
    'engines': [
        {'name': 'pkfacts', 'path': 'driver/', 'serves_properties': [c['property_id'] for c in checks],
         'kind_free_text': 'rustc_private MIR/HIR/type-graph fact extractor injected as RUSTC_WORKSPACE_WRAPPER'},
        {'name': 'pk', 'path': 'pk/', 'serves_properties': [c['property_id'] for c in checks],
         'kind_free_text': 'python3-stdlib rule engine: CFG dominators/must-pass-through, resolved call graph, symbolic value graphs with polynomial normal form, float-class/interval abstract interpretation, literal-table checks'},
    ],
    'checks': checks,
    'not_applicable': na,
    'notes': 'Static analysis only: every verdict is computed from rustc MIR/HIR facts of /repo\'s current working tree, re-extracted whenever the tree hash changes; no packing code is executed. See DESIGN.md.',
}
json.dump(m, open(os.path.join(HERE, 'MANIFEST.json'), 'w'), indent=1)
print('claimed', [c['property_id'] for c in checks], 'n/a', [n['property_id'] for n in na])
