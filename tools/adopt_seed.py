#!/usr/bin/env python3
"""Adopt a confirmed seeded change into /verif/seeded/<name>/ with meta.json.
usage: tools/adopt_seed.py <src dir> <name> <property id> <confirm results file>"""
import json, os, re, shutil, subprocess, sys
src, name, prop, resfile = sys.argv[1:5]
HERE = os.path.dirname(os.path.dirname(os.path.abspath(__file__)))
dst = os.path.join(HERE, 'seeded', name)
os.makedirs(dst, exist_ok=True)
for fn in ('patch.diff', 'demo.rs', 'notes.md'):
    shutil.copy(os.path.join(src, fn), os.path.join(dst, fn))
line = ''
for l in open(resfile):
    if l.startswith(os.path.basename(src.rstrip('/')) + ':'):
        line = l.strip()
def grab(tag):
    m = re.search(tag + r': (test result: \w+\. \d+ passed; \d+ failed)', line)
    return m.group(1) if m else None
base = re.findall(r'test result: (\w+)\. (\d+) passed; (\d+) failed', line.split('| demo WITH')[0])
out = subprocess.run([os.path.join(HERE, 'tools', 'eval_seed.sh'), src], stdout=subprocess.PIPE, stderr=subprocess.STDOUT).stdout.decode()
caught = {}
for l in out.splitlines():
    m = re.match(r'\s+(C\d+)\s+\[([\w-]+)\] (\S+)', l)
    if m:
        caught.setdefault(m.group(1), []).append('%s [%s]' % (m.group(3), m.group(2)))
notes = open(os.path.join(src, 'notes.md')).read()
needs = ''
m = re.search(r'(?is)(needs?[^\n]*manifest[^\n]*\n)(.*?)(\n#|\n\n\n|$)', notes)
if m:
    needs = (m.group(1) + m.group(2)).strip()[:900]
meta = {
    'property': prop,
    'seed': name,
    'origin': 'independent sub-agent given only the property text and a scratch worktree of /repo at acab9de (nothing from /verif)',
    'needs_to_manifest': needs or 'see notes.md',
    'confirmed_by_me': {
        'how': 'tools/confirm_seed.sh in a scratch worktree of /repo (git apply, cargo test --lib --test packing --test potential, demo with and without the change)',
        'patch_applies': 'applies=yes' in line,
        'baseline_tests_with_change': ['%s %s passed %s failed' % b for b in base],
        'demo_with_change': grab('demo WITH change'),
        'demo_without_change': grab('demo WITHOUT change'),
    },
    'detected_by': caught,
    'target_check_detects': prop in caught,
}
json.dump(meta, open(os.path.join(dst, 'meta.json'), 'w'), indent=1)
print(name, prop, 'target detects:', prop in caught, {k: v[:2] for k, v in caught.items()})
