#!/bin/bash
# usage: tools/ben_eval.sh [Cxx ...] — run all 20 checks on scratch copies of /repo with each benign refactor (.cache/ben/Cxx/patch.diff) applied
cd /verif
ids=${@:-$(ls benign | sed "s/-b1//")}
mkdir -p /tmp/bt /tmp/beneval
for i in $ids; do
  if [ ! -d /tmp/bt/$i ]; then cp -r /repo /tmp/bt/$i; rm -rf /tmp/bt/$i/target /tmp/bt/$i/.git; (cd /tmp/bt/$i && patch -p1 -s < /verif/benign/$i-b1/patch.diff) || echo "PATCH FAILED $i"; fi
done
run1() { i=$1; out=/tmp/beneval/$i.txt; : > $out
  for p in C01 C02 C03 C04 C05 C06 C07 C08 C09 C10 C11 C12 C13 C14 C15 C16 C17 C18 C19 C20; do
    o=$(VERIF_REPO=/tmp/bt/$i VERIF_SELFCHECK=1 ./check $p 2>&1); rc=$?
    echo "$o" | grep -E "^\s+\[" | sed "s/^/  $p /" | cut -c1-200 >> $out
    [ $rc -ne 0 ] && echo "  $p exit=$rc" >> $out
  done; }
export -f run1
echo $ids | tr ' ' '\n' | xargs -P 6 -I{} bash -c 'run1 {}'
for i in $ids; do n=$(grep -c "exit=" /tmp/beneval/$i.txt); echo "== $i: $n failing checks"; grep -v "exit=" /tmp/beneval/$i.txt; done
