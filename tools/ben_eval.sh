#!/bin/bash
# usage: tools/ben_eval.sh [id ...] — run all 20 checks on every behaviour-preserving variant under benign/<id>/ (patch.diff made against
# the /repo commit in benign/<id>/BASE; later fix: commits replayed by tools/mk_variant.sh).  A silent run is the expected result.
cd /verif
ids=${@:-$(ls benign | grep -v README)}
bt=/tmp/btv; mkdir -p $bt $bt/out
for i in $ids; do
  [ -d $bt/$i ] || tools/mk_variant.sh $(cat benign/$i/BASE) benign/$i/patch.diff $bt/$i
done
run1() { i=$1; bt=$2; out=$bt/out/$i.txt; : > $out
  for p in C01 C02 C03 C04 C05 C06 C07 C08 C09 C10 C11 C12 C13 C14 C15 C16 C17 C18 C19 C20; do
    o=$(VERIF_REPO=$bt/$i VERIF_SELFCHECK=1 ./check $p 2>&1); rc=$?
    echo "$o" | grep -E "^\s+\[" | sed "s/^/  $p /" | cut -c1-200 >> $out
    [ $rc -ne 0 ] && echo "  $p exit=$rc" >> $out
  done; }
export -f run1
echo $ids | tr ' ' '\n' | xargs -P 6 -I{} bash -c "run1 {} $bt"
for i in $ids; do n=$(grep -c "exit=" $bt/out/$i.txt); echo "== $i: $n failing checks"; grep -v "exit=" $bt/out/$i.txt | sort | uniq -c; done
rm -rf /verif/facts/x*
