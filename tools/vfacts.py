#!/usr/bin/env python3
"""tools/vfacts.py <repo dir> — extract (or reuse) the facts of a tree and print the facts directory (debugging aid)."""
import os, sys
os.environ['VERIF_REPO'] = sys.argv[1]
os.environ['VERIF_SELFCHECK'] = '1'
sys.path.insert(0, os.path.join(os.path.dirname(os.path.abspath(__file__)), '..'))
os.chdir(os.path.join(os.path.dirname(os.path.abspath(__file__)), '..'))
from pk import harness
print(harness.extract('dev'))
