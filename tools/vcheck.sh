#!/bin/bash
# usage: tools/vcheck.sh <variant dir> [props...] — run checks on a scratch variant, print only alarms (debugging aid)
d=$1; shift
ps=${@:-C01 C02 C03 C04 C05 C06 C07 C08 C09 C10 C11 C12 C13 C14 C15 C16 C17 C18 C19 C20}
cd /verif
for p in $ps; do VERIF_REPO=$d VERIF_SELFCHECK=1 ./check $p 2>&1 | grep -A2 "^\s*\[" | cut -c1-${W:-420}; done
