#!/bin/bash
# usage: tools/confirm_seed.sh <dir with patch.diff + demo.rs>   — confirm a seeded change in a scratch worktree of /repo:
#  (1) patch applies and compiles, (2) the 90 baseline tests pass with it, (3) demo fails with it, (4) demo passes without it.
d=$(readlink -f $1); id=$(basename $d)
W=/tmp/confirm/$id; rm -rf $W; mkdir -p /tmp/confirm
git -C /repo worktree add -q --detach $W HEAD || exit 2
export CARGO_NET_OFFLINE=true CARGO_TARGET_DIR=/verif/.cache/target-confirm
cd $W; mkdir -p target
res=""
if git apply $d/patch.diff 2>/tmp/confirm/$id.applyerr; then res="applies=yes"; else res="applies=NO"; fi
cp $d/demo.rs tests/seed_demo.rs
t=$(timeout 900 cargo test --offline --lib --test packing --test potential 2>&1 | grep -E "^test result" | tr '\n' ' ')
res="$res | baseline: $t"
w=$(timeout 900 cargo test --offline --test seed_demo 2>&1 | grep -E "^test result|error(\[|:)" | head -2 | tr '\n' ' ')
res="$res | demo WITH change: $w"
git apply -R $d/patch.diff 2>/dev/null || git checkout -q -- src
wo=$(timeout 900 cargo test --offline --test seed_demo 2>&1 | grep -E "^test result|error(\[|:)" | head -2 | tr '\n' ' ')
res="$res | demo WITHOUT change: $wo"
cd /; git -C /repo worktree remove --force $W
echo "$id: $res"
