"""Checker self-validation catalogue.

MUTANTS: source edits that break a property while still compiling (each was confirmed to compile when added; those
marked tests=True were also confirmed to pass the 90 baseline tests).  The named property's check must report a
violation whose key contains `expect`.
BENIGN: behaviour-preserving refactors; every listed check must stay silent.
Edits are (relative file, old text (must occur exactly once), new text).
"""

OPT = 'src/optimisation.rs'
BAS = 'src/basis.rs'
CELL = 'src/cell.rs'
PACK = 'src/state/packed.rs'
POT = 'src/state/potential.rs'
WALL = 'src/wallpaper.rs'
TRANS = 'src/transform.rs'
SITE = 'src/site.rs'
MAIN = 'src/main.rs'
SVG = 'src/to_svg.rs'
LJ2 = 'src/shape/components/lj2.rs'
LINE2 = 'src/shape/components/line2.rs'
ATOM2 = 'src/shape/components/atom2.rs'
LSHAPE = 'src/shape/line_shape.rs'
MSHAPE = 'src/shape/molecular_shape2.rs'
LJSHAPE = 'src/shape/lj_shape.rs'


def M(id, prop, expect, *edits):
    return {'id': id, 'property': prop, 'expect': expect, 'edits': list(edits)}


def B(id, props, *edits):
    return {'id': id, 'props': props, 'edits': list(edits)}


MUTANTS = [
    # C01
    M('C01-inverted-test', 'C01', 'R1/', (PACK, 'if self.check_intersection() {', 'if !self.check_intersection() {')),
    M('C01-skip-plus-2', 'C01', 'R3/in-cell', (PACK, '.skip(index + 1)', '.skip(index + 2)')),
    M('C01-zero-shells', 'C01', 'R4/', (PACK, '=> 1,', '=> 0,')),
    M('C01-prefilter-radius', 'C01', 'R5/', (PACK, 'self.shape.enclosing_radius().mul(2.).powi(2)', 'self.shape.enclosing_radius().powi(2)')),
    M('C01-pair-check-cap', 'C01', 'R5/prefilter-sound',
      (PACK, '''        for transform1 in self.cartesian_positions() {
            let shape1 = self.shape.transform(&transform1);''', '''        let mut checked = 0;
        for transform1 in self.cartesian_positions() {
            let shape1 = self.shape.transform(&transform1);'''),
      (PACK, '                    let distance = (transform1.position() - transform2.position()).norm_squared();',
       '''                    checked += 1;
                    if checked > 512 {
                        continue;
                    }
                    let distance = (transform1.position() - transform2.position()).norm_squared();''')),
    M('C01-prefilter-flipped', 'C01', 'R5/', (PACK, 'if distance <= radius_sq {', 'if distance >= radius_sq {')),
    M('C01-cartesian-into-images', 'C01', 'R3/periodic', (PACK, 'self.cell.periodic_images(position, periodic_range, false)', 'self.cell.periodic_images(transform1, periodic_range, false)')),
    M('C01-identity-image-included-only', 'C01', 'R3/periodic', (PACK, 'periodic_images(position, periodic_range, false)', 'periodic_images(position, periodic_range, true)')),
    # C02
    M('C02-drop-copies', 'C02', 'R1/', (PACK, 'Some((self.shape.area() * self.total_shapes() as f64) / self.cell.area())', 'Some(self.shape.area() / self.cell.area())')),
    M('C02-area-cos', 'C02', 'R3/', (CELL, 'self.angle().sin() * self.a() * self.b()', 'self.angle().cos() * self.a() * self.b()')),
    M('C02-polygon-factor', 'C02', 'R4/edge-term', (LSHAPE, '                0.5 * angle_term', '                1. * angle_term')),
    M('C02-lens-added', 'C02', 'R5/inclusion', (MSHAPE, 'total_area - naive_overlap', 'total_area + naive_overlap')),
    M('C02-lens-sign', 'C02', 'R5/lens', (MSHAPE, 'r.powi(2) * f64::acos(d / r) - d * f64::sqrt(r.powi(2) - d.powi(2))', 'r.powi(2) * f64::acos(d / r) + d * f64::sqrt(r.powi(2) - d.powi(2))')),
    M('C02-vertex-pairing', 'C02', 'R4/radial', (LSHAPE, 'points.iter().zip(points.iter().cycle().skip(1))', 'points.iter().zip(points.iter().cycle().skip(2))')),
    # C03
    M('C03-image-range-two', 'C03', 'R6/shell-witness', (POT, '.periodic_images(position, 3, false)', '.periodic_images(position, 2, false)')),
    M('C03-shared-inner-iterator', 'C03', 'R2/in-cell-pairs-once',
      (POT, '        // Compare within the current cell\n', '        // Compare within the current cell\n        let mut others = self.cartesian_positions().map(|p| self.shape.transform(&p));\n'),
      (POT, '            for shape2 in self\n                .cartesian_positions()\n                .map(|p| self.shape.transform(&p))\n                .skip(index + 1)\n            {\n                sum += shape1.energy(&shape2);',
       '            for shape2 in others.by_ref().skip(index + 1) {\n                sum += shape1.energy(&shape2);')),
    M('C03-sign', 'C03', 'R1/score-is', (POT, 'Some(-sum / self.total_shapes() as f64)', 'Some(sum / self.total_shapes() as f64)')),
    M('C03-no-normalisation', 'C03', 'R1/score-is', (POT, 'Some(-sum / self.total_shapes() as f64)', 'Some(-sum)')),
    M('C03-image-weight-back-to-one', 'C03', 'R2/PotentialState::score/periodic-accumulation', (POT, 'sum += 0.5 * shape1.energy(&shape2);', 'sum += shape1.energy(&shape2);')),
    M('C03-image-weight-quarter', 'C03', 'R2/PotentialState::score/periodic-accumulation', (POT, 'sum += 0.5 * shape1.energy(&shape2);', 'sum += 0.25 * shape1.energy(&shape2);')),
    # C04
    M('C04-p2mg-monoclinic', 'C04', 'R3/no-angle-dof:p2mg', (WALL, '            name: "p2mg",\n            family: CrystalFamily::Orthorhombic,', '            name: "p2mg",\n            family: CrystalFamily::Monoclinic,')),
    M('C04-set-position-wrong-entry', 'C04', 'R2/', (TRANS, 'self.0[(0, 2)] = position.x;', 'self.0[(0, 0)] = position.x;')),
    M('C04-site-times-sym', 'C04', 'C15:operation-times-site', (SITE, '.map(move |sym| sym * transform)', '.map(move |sym| transform * sym)')),
    # C05
    M('C05-guard-removed', 'C05', 'R1/', (OPT, '(None, Some(finish)) if self.kt_start > 0. => {', '(None, Some(finish)) if self.kt_start >= 0. => {')),
    M('C05-negative-factor', 'C05', 'R1/kt_ratio=Some', (OPT, '(Some(ratio), _) => f64::max(0., 1. - ratio),', '(Some(ratio), _) => 1. - ratio,')),
    M('C05-accept-on-le', 'C05', 'R3/', (OPT, 'threshold < self.energy_surface(new, old, kt)', 'threshold <= self.energy_surface(new, old, kt)')),
    # C06
    M('C06-undo-index-0', 'C06', 'R2/undo-same-index', (OPT, '.get(basis_index)', '.get(0)')),
    M('C06-reset-writes-min', 'C06', 'R3/reset-writes-old', (BAS, 'self.value.set_value(self.old);', 'self.value.set_value(self.min);')),
    M('C06-old-is-new', 'C06', 'R3/old-is-pre-write-value', (BAS, 'self.old = self.get_value();', 'self.old = new_value;')),
    M('C06-undo-only-above-epsilon', 'C06', 'R3/reset-always-restores',
      (BAS, '        self.value.set_value(self.old);', '        if (self.get_value() - self.old).abs() > std::f64::EPSILON {\n            self.value.set_value(self.old);\n        }')),
    M('C06-reject-falls-back-to-loop-start', 'C06', 'R5/compared-score-never-falls-back-to-a-snapshot',
      (OPT, '                        loop_rejections += 1;\n                        score_current\n', '                        loop_rejections += 1;\n                        score_start\n')),
    M('C06-direct-sampler-stale-undo', 'C06', 'R3/',
      (BAS, '        self.set_value(self.sample(rng, step_size));', '        let current = self.get_value();\n        let proposed = current + step_size * self.value_range() * rng.gen_range(-0.5, 0.5);\n        self.old = proposed;\n        self.value.set_value(match proposed {\n            x if x < self.min => self.min,\n            x if x > self.max => self.max,\n            x => x,\n        });')),
    M('C08-direct-sampler-no-clamp', 'C08', 'R2/clamp:set_sampled-writes-directly',
      (BAS, '        self.set_value(self.sample(rng, step_size));', '        let current = self.get_value();\n        let proposed = current + step_size * self.value_range() * rng.gen_range(-0.5, 0.5);\n        self.old = current;\n        self.value.set_value(proposed);')),
    M('C06-undo-removed', 'C06', 'R2/', (OPT, '                            .expect("Trying to access basis which doesn\'t exist.")\n                            .reset_value();', '                            .expect("Trying to access basis which doesn\'t exist.");')),
    # C07
    M('C07-old-minus-new', 'C07', 'R3/', (OPT, 'f64::exp((new - old) / kt)', 'f64::exp((old - new) / kt)')),
    M('C07-times-kt', 'C07', 'R3/', (OPT, 'f64::exp((new - old) / kt)', 'f64::exp((new - old) * kt)')),
    M('C07-threshold-gt', 'C07', 'R1/', (OPT, 'threshold < self.energy_surface(new, old, kt)', 'threshold > self.energy_surface(new, old, kt)')),
    M('C07-some-old', 'C07', 'R2/', (OPT, 'Some(new_score) if new_score > old => Some(new_score),', 'Some(new_score) if new_score > old => Some(old),')),
    M('C07-thread-rng', 'C07', 'R4/draw-from', (OPT, 'let threshold: f64 = rng.gen();', 'let threshold: f64 = rand::thread_rng().gen();')),
    M('C07-none-accepted', 'C07', 'R1/', (OPT, '            _ => None,\n        }\n    }', '            _ => new,\n        }\n    }')),
    # C08
    M('C08-clamp-arm-swapped', 'C08', 'R2/clamp', (BAS, 'x if x > self.max => self.max,', 'x if x > self.max => self.min,')),
    M('C08-angle-for-orthorhombic', 'C08', 'R3/dof:Orthorhombic', (CELL, '            CrystalFamily::Orthorhombic => {\n                basis.push(StandardBasis::new(&self.ratio, 0.1, self.ratio.get_value()));\n            }', '            CrystalFamily::Orthorhombic => {\n                basis.push(StandardBasis::new(&self.ratio, 0.1, self.ratio.get_value()));\n                basis.push(StandardBasis::new(&self.angle, PI / 6., PI / 2.));\n            }')),
    M('C08-angle-lower-bound', 'C08', 'R3/range:Monoclinic.angle', (CELL, 'basis.push(StandardBasis::new(&self.angle, PI / 6., PI / 2.));', 'basis.push(StandardBasis::new(&self.angle, 0., PI / 2.));')),
    M('C08-length-bound-constant', 'C08', 'R3/range:', (CELL, '            self.length.get_value(),\n        ));', '            1000.,\n        ));')),
    M('C08-initial-site', 'C08', 'R4/initial-site', (SITE, 'let position = -0.5 + 0.5 / wyckoff.multiplicity() as f64;', 'let position = -0.5 - 0.5 / wyckoff.multiplicity() as f64;')),
    # C09
    M('C09-clone-wrong-field', 'C09', 'R3/clone-fidelity', (CELL, 'ratio: SharedValue::new(self.ratio.get_value()),', 'ratio: SharedValue::new(self.length.get_value()),')),
    M('C09-time-boxed-inner-loop', 'C09', 'R5/no-nondeterminism-source',
      (OPT, '        let mut rng = Pcg64Mcg::seed_from_u64(self.seed);', '        let started = std::time::Instant::now();\n        let mut rng = Pcg64Mcg::seed_from_u64(self.seed);'),
      (OPT, '            for _ in 0..self.inner_steps {\n', '            for _ in 0..self.inner_steps {\n                if started.elapsed().as_millis() > 100 {\n                    break;\n                }\n')),
    M('C09-seed-zero', 'C09', 'R6/seeded-with-replica-index', (MAIN, '                .seed(index)\n                .build()\n                .optimise_state(opt_state);\n            (index, result)', '                .seed(0)\n                .build()\n                .optimise_state(opt_state);\n            (index, result)')),
    M('C09-thread-rng-in-sample', 'C09', 'R5/', (BAS, 'self.get_value() + step_size * self.value_range() * rng.gen_range(-0.5, 0.5)', 'self.get_value() + step_size * self.value_range() * rand::thread_rng().gen_range(-0.5, 0.5)')),
    # C10
    M('C10-min', 'C10', 'R1/written-state-is-the-max', (MAIN, '.max()', '.min()')),
    M('C10-reversed-order', 'C10', 'R2/partial_cmp', (PACK, '(Some(s), Some(o)) => s.partial_cmp(&o),', '(Some(s), Some(o)) => o.partial_cmp(&s),')),
    M('C10-take-one-op', 'C10', 'R5/WyckoffSite', (WALL, '.map(|&a| Transform2::from_operations(a))', '.take(1).map(|&a| Transform2::from_operations(a))')),
    M('C10-label', 'C10', 'R4/p1g1.name', (WALL, '            name: "p1g1",', '            name: "p1m1-glide",')),
    # C11
    M('C11-f32', 'C11', 'R1/manual-writer', (BAS, 'serializer.serialize_f64(self.get_value())', 'serializer.serialize_f32(self.get_value() as f32)')),
    M('C11-visitor-abs', 'C11', 'R1/manual-reader', (BAS, '        Ok(value)\n    }\n}', '        Ok(value.abs())\n    }\n}')),
    M('C11-matrix-swapped', 'C11', 'R3/matrix-slot-order', (SVG, '                matrix[(1, 0)],\n                matrix[(0, 1)],', '                matrix[(0, 1)],\n                matrix[(1, 0)],')),
    M('C11-placeholder-order', 'C11', 'R3/matrix-slot-order', (SVG, '"matrix({0} {1} {2} {3} {4} {5})"', '"matrix({0} {2} {1} {3} {4} {5})"')),
    M('C11-svg-fractional', 'C11', 'R4/svg-placements', (SVG, '            let matrix = self.cell.to_cartesian_isometry(position);\n            doc = doc.add(matrix.as_svg()', '            let matrix = position;\n            doc = doc.add(matrix.as_svg()')),
    M('C11-json-reader-inexact', 'C11', 'R5/json-reader-is-correctly-rounded', ('Cargo.toml', 'serde_json = { version = "~1.0.57", features = ["float_roundtrip"] }', 'serde_json = "~1.0.57"')),
    M('C11-serde-skip', 'C11', 'R1/fields-agree', (WALL, 'pub struct Wallpaper {\n    pub name: String,', 'pub struct Wallpaper {\n    #[serde(skip)]\n    pub name: String,')),
    # C12
    M('C12-disc-gt', 'C12', 'R1/disc', (ATOM2, '(self.position - other.position).norm_squared() < r_squared', '(self.position - other.position).norm_squared() > r_squared')),
    M('C12-disc-own-radius', 'C12', 'R1/disc', (ATOM2, 'let r_squared = (self.radius + other.radius).powi(2);', 'let r_squared = (self.radius * 2.).powi(2);')),
    M('C12-dropped-ua-bound', 'C12', 'R2/segment-accepts', (LINE2, 'if 0. <= ua && ua <= 1. && 0. <= ub && ub <= 1. {', 'if 0. <= ua && 0. <= ub && ub <= 1. {')),
    M('C12-ub-lower', 'C12', 'R2/segment-accepts', (LINE2, 'if 0. <= ua && ua <= 1. && 0. <= ub && ub <= 1. {', 'if 0. <= ua && ua <= 1. && 0.1 <= ub && ub <= 1. {')),
    M('C12-open-interval', 'C12', 'R2/segment-accepts', (LINE2, 'if 0. <= ua && ua <= 1. && 0. <= ub && ub <= 1. {', 'if 0. < ua && ua < 1. && 0. < ub && ub < 1. {')),
    M('C12-zip', 'C12', 'R4/', (LSHAPE, 'iproduct!(self.iter(), other.iter()).any(|(s, o)| s.intersects(o))', 'self.iter().zip(other.iter()).any(|(s, o)| s.intersects(o))')),
    M('C12-all', 'C12', 'R4/', (MSHAPE, 'iproduct!(self.items.iter(), other.items.iter()).any(|(s, o)| s.intersects(o))', 'iproduct!(self.items.iter(), other.items.iter()).all(|(s, o)| s.intersects(o))')),
    # C13
    M('C13-shift-sign', 'C13', 'R2/', (LJ2, '(self.sigma / x).powi(12) - (self.sigma / x).powi(6));', '(self.sigma / x).powi(12) + (self.sigma / x).powi(6));')),
    M('C13-exponent', 'C13', 'R1/', (LJ2, 'let sigma2_r2_cubed = (sigma_squared / r_squared).powi(3);', 'let sigma2_r2_cubed = (sigma_squared / r_squared).powi(2);')),
    M('C13-zip', 'C13', 'R5/', (LJSHAPE, 'iproduct!(self.items.iter(), other.items.iter())\n            .map(|(s, o)| s.energy(o))', 'self.items.iter().zip(other.items.iter())\n            .map(|(s, o)| s.energy(o))')),
    M('C13-ops-sigma', 'C13', 'R6/', ('src/shape/components/lj2_ops.rs', 'sigma: rhs.sigma,', 'sigma: rhs.epsilon,')),
    M('C13-cutoff-gt', 'C13', 'R2/', (LJ2, 'if r_squared < x * x {', 'if r_squared > x * x {')),
    # C14
    M('C14-sin-cos', 'C14', 'R1/lattice-vector-B', (CELL, 'x * self.a() + y * self.b() * self.angle().cos(),', 'x * self.a() + y * self.b() * self.angle().sin(),')),
    M('C14-xy-swapped', 'C14', 'R2/to_cartesian_translate', (CELL, 'Translation2::new(x as f64, y as f64)', 'Translation2::new(y as f64, x as f64)')),
    M('C14-filter', 'C14', 'R3/filter-truth-table', (CELL, '.filter(move |&(x, y)| !(!zero && x == 0 && y == 0))', '.filter(move |&(x, y)| !(!zero && (x == 0 || y == 0)))')),
    M('C14-half-open', 'C14', 'R3/index-range', (CELL, 'iproduct!(-shells..=shells, -shells..=shells)', 'iproduct!(-shells..shells, -shells..=shells)')),
    M('C14-area-ratio', 'C14', 'R4/', (CELL, 'self.angle().sin() * self.a() * self.b()', 'self.angle().sin() * self.a() * self.a()')),
    # C15
    M('C15-product-order', 'C15', 'R2/operation-times-site', (SITE, '.map(move |sym| sym * transform)', '.map(move |sym| transform * sym)')),
    M('C15-wrap-offset', 'C15', 'R3/wrap-into', (SITE, '.map(|sym| sym.periodic(1., -0.5))', '.map(|sym| sym.periodic(1., 0.))')),
    M('C15-skip-identity', 'C15', 'R1/one-placement', (SITE, 'self.wyckoff.symmetries.iter()', 'self.wyckoff.symmetries.iter().skip(1)')),
    M('C15-wrap-y-from-x', 'C15', 'R3/wrap-formula:y', (TRANS, 'position.y = (((position.y - offset) % period) + period) % period + offset;', 'position.y = (((position.x - offset) % period) + period) % period + offset;')),
    M('C15-xy-swapped', 'C15', 'R2/site-transform', (SITE, '(self.x.get_value(), self.y.get_value()),', '(self.y.get_value(), self.x.get_value()),')),
    # C16
    M('C16-p2mg-half-moved', 'C16', 'R3/general-positions:p2mg', (WALL, '"-x+1/2, y", "x+1/2, -y"', '"-x+1/2, y", "x, -y+1/2"')),
    M('C16-p1g1-mirror', 'C16', 'R3/general-positions:p1g1', (WALL, 'wyckoff_str: vec!["x,y", "-x,y+1/2"],', 'wyckoff_str: vec!["x,y", "-x+1/2,y"],')),
    M('C16-p2gg-sign', 'C16', 'R2/closure:p2gg', (WALL, '"-x+1/2, y+1/2", "x+1/2, -y+1/2"', '"-x+1/2, y+1/2", "x+1/2, y+1/2"')),
    # C17
    M('C17-guard-removed', 'C17', 'R2/index-in-bounds', (TRANS, '            x if x > 2 => bail!("Too many dimensions in input"),\n', '')),
    M('C17-fraction-divides-by-numerator', 'C17', 'R3/digit-step:form',
      (TRANS, "Some(op) if op == '/' => sign * constant / val,", "Some(op) if op == '/' => sign / constant / val,")),
    M('C17-unwrap', 'C17', 'R1/', (TRANS, 'let val = c.to_string().parse::<u64>()? as f64;', 'let val = c.to_string().parse::<u64>().unwrap() as f64;')),
    # C18
    M('C18-cool-in-inner-loop', 'C18', 'R1/', (OPT, '                        loop_rejections += 1;\n                        score_current', '                        loop_rejections += 1;\n                        kt *= self.kt_ratio;\n                        score_current')),
    M('C18-one-plus-ratio', 'C18', 'R2/factor:kt_ratio=Some', (OPT, '(Some(ratio), _) => f64::max(0., 1. - ratio),', '(Some(ratio), _) => f64::max(0., 1. + ratio),')),
    M('C18-exponent-steps', 'C18', 'R2/BuildOptimiser::build/exponent-vs-trip-count', (OPT, 'f64::powf(finish / self.kt_start, 1. / loops)', 'f64::powf(finish / self.kt_start, 1. / self.steps as f64)')),
    M('C18-inverse-ratio', 'C18', 'R2/BuildOptimiser::build/exponent-vs-trip-count', (OPT, 'f64::powf(finish / self.kt_start, 1. / loops)', 'f64::powf(self.kt_start / finish, 1. / loops)')),
    # C19
    M('C19-cap-removed', 'C19', 'R1/optimise_state/step_ratio-unbounded', (OPT, '                step_ratio = f64::min(\n                    step_ratio * (self.inner_steps as f64 / (loop_rejections as f64 + 1.)),\n                    1.,\n                );', '                step_ratio *= self.inner_steps as f64 / (loop_rejections as f64 + 1.);')),
    M('C19-cap-two', 'C19', 'R1/optimise_state/step_ratio-unbounded', (OPT, '                    1.,\n                );', '                    2.,\n                );')),
    M('C19-gen-range', 'C19', 'R2/sample', (BAS, 'rng.gen_range(-0.5, 0.5)', 'rng.gen_range(-1., 1.)')),
    M('C19-range-is-max', 'C19', 'R2/sample', (BAS, 'self.get_value() + step_size * self.value_range() * rng.gen_range(-0.5, 0.5)', 'self.get_value() + step_size * self.max * rng.gen_range(-0.5, 0.5)')),
    # C20
    M('C20-zero-guard-removed', 'C20', 'R1/optimise_state/div:steps/inner_steps', (OPT, 'let inner_steps = u64::max(1, u64::min(self.inner_steps, self.steps));', 'let inner_steps = u64::min(self.inner_steps, self.steps);')),
    M('C20-second-score', 'C20', 'R2/one-score-per-inner-iteration', (OPT, '                        loop_rejections += 1;\n                        score_current', '                        loop_rejections += 1;\n                        let _ = state.score();\n                        score_current')),
    M('C20-convergence-touches-kt', 'C20', 'R3/convergence-block-is-effect-free', (OPT, '                    convergence_count += 1;', '                    convergence_count += 1;\n                    kt *= 0.5;')),
    M('C20-convergence-threshold-3', 'C20', 'R3/exit-after', (OPT, 'if convergence_count > 5 {', 'if convergence_count > 3 {')),
    M('C20-unwrap-in-main', 'C20', 'R', (MAIN, '.ok_or_else(|| anyhow!("Error in running optimisation."))?;', '.unwrap();')),
    M('C20-basis-may-be-empty', 'C20', 'Uniform::new', (PACK, '        basis.append(&mut self.cell.get_degrees_of_freedom());', '        if self.occupied_sites.len() > 1 {\n            basis.append(&mut self.cell.get_degrees_of_freedom());\n        }')),
    M('C20-basis-cleared-per-site', 'C20', 'Uniform::new', (PACK, '            basis.append(&mut site.get_basis(1));', '            basis.clear();\n            basis.append(&mut site.get_basis(1));')),
    M('C20-assert-on-input', 'C20', 'explicit-panic', (SITE, '        let dof = self.wyckoff.degrees_of_freedom();', '        let dof = self.wyckoff.degrees_of_freedom();\n        assert!(rot_symmetry < 7);')),
    M('C18-cooling-before-the-inner-loop', 'C18', 'R1/decision-sees-the-temperature-of-its-iteration',
      (OPT, '            kt *= self.kt_ratio;\n', ''),
      (OPT, '            let score_start = score_current;\n', '            let score_start = score_current;\n            kt *= self.kt_ratio;\n')),
    M('C20-capacity-overflow', 'C20', 'Overflow:Mul', (PACK, '        let mut basis: Vec<StandardBasis> = vec![];', '        let mut basis: Vec<StandardBasis> =\n            Vec::with_capacity(self.occupied_sites.len() * (usize::MAX / 4));')),
    M('C20-inner-loop-other-bound', 'C20', 'R2/inner-trip-count', (OPT, 'for _ in 0..self.inner_steps {', 'for _ in 0..self.steps {')),
]

BENIGN = [
    B('elapsed-time-in-a-log-line', ['C05', 'C09', 'C18', 'C20'],
      (OPT, '        let mut rng = Pcg64Mcg::seed_from_u64(self.seed);', '        let started = std::time::Instant::now();\n        let mut rng = Pcg64Mcg::seed_from_u64(self.seed);'),
      (OPT, '            kt *= self.kt_ratio;', '            debug!("loop {} finished after {:?} ({} s)", loop_counter, started.elapsed(), started.elapsed().as_secs_f64());\n            kt *= self.kt_ratio;')),
    B('rename-locals-optimiser', ['C05', 'C06', 'C07', 'C18', 'C19', 'C20'],
      (OPT, 'let mut kt: f64 = self.kt_start;', 'let mut temperature: f64 = self.kt_start;'),
      (OPT, 'self.accept_score(state.score(), score_current, kt, &mut rng)', 'self.accept_score(state.score(), score_current, temperature, &mut rng)'),
      (OPT, '            kt *= self.kt_ratio;', '            temperature *= self.kt_ratio;')),
    B('exp-of-negated-difference', ['C05', 'C07'],
      (OPT, 'f64::exp((new - old) / kt)', 'f64::exp(-(old - new) / kt)')),
    B('draw-after-first-test', ['C05', 'C07'],
      (OPT, '        let threshold: f64 = rng.gen();\n\n        match new {', '        match new {'),
      (OPT, 'Some(new_score) if self.test_acceptance(threshold, new_score, old, kt) => {', 'Some(new_score) if self.test_acceptance(rng.gen(), new_score, old, kt) => {')),
    B('step-cap-method-form', ['C19', 'C20'],
      (OPT, '                step_ratio = f64::min(\n                    step_ratio * (self.inner_steps as f64 / (loop_rejections as f64 + 1.)),\n                    1.,\n                );',
       '                let factor = self.inner_steps as f64 / (loop_rejections as f64 + 1.);\n                step_ratio = (step_ratio * factor).min(1.);')),
    B('trip-count-as-local', ['C18', 'C20', 'C05'],
      (OPT, '        for loop_counter in 1..=(self.steps / self.inner_steps) {', '        let outer_loops = self.steps / self.inner_steps;\n        for loop_counter in 1..=outer_loops {')),
    B('added-logging', ['C05', 'C06', 'C07', 'C18', 'C19', 'C20', 'C09'],
      (OPT, '            rejections += loop_rejections;', '            rejections += loop_rejections;\n            debug!("loop {} rejected {}", loop_counter, loop_rejections);')),
    B('sin-cos-precomputed', ['C14', 'C02', 'C04'],
      (CELL, '        (\n            x * self.a() + y * self.b() * self.angle().cos(),\n            y * self.b() * self.angle().sin(),\n        )',
       '        let (sin, cos) = self.angle().sin_cos();\n        let b = self.b();\n        (x * self.a() + y * b * cos, y * b * sin)')),
    B('area-operand-order', ['C14', 'C02'],
      (CELL, 'self.angle().sin() * self.a() * self.b()', 'self.a() * self.b() * self.angle().sin()')),
    B('lj-direct-powers', ['C13'],
      (LJ2, '            None => 4. * self.epsilon * (sigma2_r2_cubed.powi(2) - sigma2_r2_cubed),',
       '            None => {\n                let r = r_squared.sqrt();\n                4. * self.epsilon * ((self.sigma / r).powi(12) - (self.sigma / r).powi(6))\n            }')),
    B('prefilter-strict-and-expanded', ['C01'],
      (PACK, 'let radius_sq = self.shape.enclosing_radius().mul(2.).powi(2);', 'let radius_sq = 4. * self.shape.enclosing_radius() * self.shape.enclosing_radius();'),
      (PACK, 'if distance <= radius_sq {', 'if distance < radius_sq {')),
    B('group-arms-reordered-and-blanks', ['C16', 'C10', 'C04'],
      (WALL, '            wyckoff_str: vec!["x,y", "-x,-y", "-x,y", "x,-y"],', '            wyckoff_str: vec!["x, y", "-x,y", "x,-y", "-x, -y"],')),
    B('clamp-via-min-max', ['C08', 'C06'],
      (BAS, '        self.value.set_value(match new_value {\n            x if x < self.min => self.min,\n            x if x > self.max => self.max,\n            x => x,\n        })',
       '        self.value.set_value(new_value.max(self.min).min(self.max))')),
    B('max-by-cmp', ['C10', 'C09'],
      (MAIN, '.max()\n', '.max_by(|a, b| a.cmp(b))\n')),
    B('positions-without-helper', ['C15', 'C04'],
      (SITE, '        self.symmetries()\n            .map(move |sym| sym * transform)', '        self.wyckoff\n            .symmetries\n            .iter()\n            .map(move |sym| sym * transform)')),
    B('disc-predicate-le', ['C12'],
      (ATOM2, '(self.position - other.position).norm_squared() < r_squared', '(self.position - other.position).norm_squared() <= r_squared')),
    B('serde-default', ['C11'],
      (WALL, 'pub struct Wallpaper {\n    pub name: String,', 'pub struct Wallpaper {\n    #[serde(default)]\n    pub name: String,')),
    B('if-let-decision', ['C06', 'C07', 'C05', 'C20'],
      (OPT, '''                score_current = match self.accept_score(state.score(), score_current, kt, &mut rng)
                {
                    Some(score) => score,
                    // Score was rejected so we have to undo the change
                    None => {
                        basis
                            .get(basis_index)
                            // There was some error in accessing the basis,
                            // This should never occur in normal operation so panic and exit
                            .expect("Trying to access basis which doesn't exist.")
                            .reset_value();
                        // Increment counter of rejections
                        loop_rejections += 1;
                        score_current
                    }
                };''', '''                if let Some(score) = self.accept_score(state.score(), score_current, kt, &mut rng) {
                    score_current = score;
                } else {
                    basis
                        .get(basis_index)
                        .expect("Trying to access basis which doesn't exist.")
                        .reset_value();
                    loop_rejections += 1;
                }''')),
    B('undo-skipped-when-nothing-changed', ['C06', 'C05'],
      (BAS, '        self.value.set_value(self.old);', '        if self.get_value() != self.old {\n            self.value.set_value(self.old);\n        }')),
    B('set-sampled-reads-the-cell-once', ['C05', 'C06', 'C07', 'C08', 'C19'],
      (BAS, '        self.set_value(self.sample(rng, step_size));', '        let current = self.get_value();\n        let proposed = current + step_size * self.value_range() * rng.gen_range(-0.5, 0.5);\n        self.old = current;\n        self.value.set_value(match proposed {\n            x if x < self.min => self.min,\n            x if x > self.max => self.max,\n            x => x,\n        });')),
    B('index-instead-of-get', ['C06', 'C20'],
      (OPT, '''                basis
                    .get_mut(basis_index)
                    // There was some error in accessing the basis,
                    // This should never occur in normal operation so panic and exit
                    .expect("Trying to access basis which doesn't exist")
                    .set_sampled(&mut rng, self.max_step_size * step_ratio);''', '''                basis[basis_index].set_sampled(&mut rng, self.max_step_size * step_ratio);''')),
    B('clone-via-default-and-set', ['C04', 'C06', 'C08', 'C09', 'C05'],
      (CELL, """        Cell2 {
            length: SharedValue::new(self.length.get_value()),
            ratio: SharedValue::new(self.ratio.get_value()),
            angle: SharedValue::new(self.angle.get_value()),
            family: self.family,
        }
    }
}

impl std::fmt::Display for Cell2 {""", """        let cell = Cell2 {
            family: self.family,
            ..Cell2::default()
        };
        cell.length.set_value(self.length.get_value());
        cell.ratio.set_value(self.ratio.get_value());
        cell.angle.set_value(self.angle.get_value());
        cell
    }
}

impl std::fmt::Display for Cell2 {""")),
    B('step-cap-by-branch-guard', ['C19', 'C20'],
      (OPT, '                step_ratio = f64::min(\n                    step_ratio * (self.inner_steps as f64 / (loop_rejections as f64 + 1.)),\n                    1.,\n                );',
       '                let factor = self.inner_steps as f64 / (loop_rejections as f64 + 1.);\n                if factor < 1. {\n                    step_ratio *= factor;\n                }')),
]
