#!/bin/bash
# Offline setup: build the fact extractor and warm the dependency cache (one extraction).
set -e
cd "$(dirname "$0")"
export CARGO_NET_OFFLINE=true
python3 - <<'PY'
import sys
sys.path.insert(0, '.')
from pk import harness
harness.ensure_driver()
d = harness.extract('dev')
print('facts:', d)
PY
